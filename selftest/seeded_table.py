"""Regenerates section 11 of DESIGN.md (between the markers) from seeded/*/meta.json + detection.json"""
import glob, json, os, re
rows = []
for d in sorted(glob.glob('/verif/seeded/*/')):
    name = os.path.basename(d.rstrip('/'))
    try:
        meta = json.load(open(d + 'meta.json'))
    except Exception:
        continue
    det = json.load(open(d + 'detection.json')) if os.path.exists(d + 'detection.json') else {}
    notes = open(d + 'notes.md').read() if os.path.exists(d + 'notes.md') else ''
    files = sorted(set(re.findall(r'^\+\+\+ b/(\S+)', open(d + 'patch.diff').read(), re.M))) if os.path.exists(d + 'patch.diff') else []
    caught = [p for p, r in det.items() if r.get('exit') == 1 and r.get('violations')]
    missed = [p for p, r in det.items() if r.get('exit') == 0]
    first = ''
    for p in caught:
        v = det[p]['violations'][0]
        first = v.split('#')[-1].strip()
        break
    needs = meta.get('needs', '')
    rows.append((name, meta.get('property', ''), ', '.join(f.replace('exactpack/solvers/', '') for f in files), 'yes' if meta.get('confirmed') else str(meta.get('status', 'no')),
                 ', '.join(caught) or '—', ', '.join(missed) or '—', first, needs))
def short(x, n=150):
    x = re.sub(r'\s+', ' ', x.replace('|', '/'))
    return x if len(x) <= n else x[:n - 1] + '…'
out = ['## 11. Seeded changes: which checks catch which', '',
       'Independent sub-agents were given only the text of one property and a scratch worktree (never anything from /verif) and asked for two changes that break',
       'the property while the whole unedited suite still passes, preferring changes that need something specific to manifest.  Two rounds were run (m1, m2: round 1;',
       'm3, m4: round 2, steered away from the files of round 1).  Each change was confirmed in a scratch worktree (`selftest/confirm_mutant.sh`: demo fails with the',
       'patch, full suite = baseline, demo passes on the clean tree) and is kept under `seeded/<id>/` (patch.diff, demo.py, notes.md, meta.json with what it needs in',
       'order to manifest, detection.json).  `selftest/run_seeded.py` applies each patch, runs the quick checks named, and reverts (on /repo itself, or on a private',
       'snapshot of /repo and /verif when /repo is busy).  The table is the last complete run; "run but missed" lists checks that were run against the change and stayed quiet.', '',
       '**What the misses taught** (each led to a change of the machinery, after which the change is caught): a known finding keyed too broadly hid a flux defect',
       '(C12-m2); a Dump that had nothing to dump made the replay drop the behaviour with the raised Call (C05 round 2); class-level caches are invisible to a scan',
       'that builds one solver per process (bystander; C15-m1, C18-m2, C01-m3, C17-m3, C10-m4); per-object leftovers are invisible to a scan whose solver has no past',
       '(own-past call; C11-m4, C17-m2); a floor that drowned every term made a clause vacuous (C01-m3); the quick tier did not contain a zero boundary value (C14-m3),',
       'a non-default density (C12-m3), a time other than the constructor default (C04-m3), a fan on the top side (C19-m1), the special Sedov exponents (C11-m3), the',
       'foot of the Su-Olson wave (C18-m4), a pre-shock pressure in the Newton probes (C16-m4), Guderley at all (C03-m3, C08-m4, C10-m3, C06-m4), slow-looking classes',
       'that are in fact fast (C06-m3); a coverage obligation turned a broken solver into a machinery failure (C19-m2); an unresolvable profile was skipped instead of',
       'judged (C04-m4); integer position arrays were never used (C15-m3: led to fix 20b7b45).', '',
       '| seeded change | target | files | confirmed | needs, in order to manifest | caught by | run but missed | first clause reported |', '|---|---|---|---|---|---|---|---|']
for r in rows:
    out.append('| %s | %s | %s | %s | %s | %s | %s | %s |' % (r[0], r[1], r[2], short(r[3], 40), short(r[7]), r[4], r[5], short(r[6], 80)))
out.append('')
block = '\n'.join(out)
s = open('/verif/DESIGN.md').read()
if '@@SECTION11@@' in s:
    s = s.replace('@@SECTION11@@', '<!-- S11 begin -->\n' + block + '\n<!-- S11 end -->')
else:
    s = re.sub(r'<!-- S11 begin -->.*?<!-- S11 end -->', lambda m: '<!-- S11 begin -->\n' + block + '\n<!-- S11 end -->', s, flags=re.S)
open('/verif/DESIGN.md', 'w').write(s)
print(len(rows), 'rows')
