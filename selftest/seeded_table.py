"""Regenerates section 11 of DESIGN.md (between the markers) from seeded/*/meta.json + detection.json"""
import glob, json, os, re
rows = []
for d in sorted(glob.glob('/verif/seeded/*/')):
    name = os.path.basename(d.rstrip('/'))
    try:
        meta = json.load(open(d + 'meta.json'))
    except Exception:
        continue
    det = json.load(open(d + 'detection.json')) if os.path.exists(d + 'detection.json') else {}
    notes = open(d + 'notes.md').read() if os.path.exists(d + 'notes.md') else ''
    files = sorted(set(re.findall(r'^\+\+\+ b/(\S+)', open(d + 'patch.diff').read(), re.M))) if os.path.exists(d + 'patch.diff') else []
    caught = [p for p, r in det.items() if r.get('exit') == 1 and r.get('violations')]
    missed = [p for p, r in det.items() if r.get('exit') == 0]
    first = ''
    for p in caught:
        v = det[p]['violations'][0]
        first = v.split('#')[-1].strip()
        break
    needs = meta.get('needs', '')
    rows.append((name, meta.get('property', ''), ', '.join(f.replace('exactpack/solvers/', '') for f in files), 'yes' if meta.get('confirmed') else str(meta.get('status', 'no')),
                 ', '.join(caught) or '—', ', '.join(missed) or '—', first, needs))
out = ['## 11. Seeded changes: which checks catch which', '',
       'Independent sub-agents were given only the text of one property and a scratch worktree and asked for a change that breaks the property while the whole',
       'unedited suite still passes, preferably one that needs something specific to manifest.  Each change was confirmed in a scratch worktree',
       '(`selftest/confirm_mutant.sh`: demo fails with the patch, full suite = baseline, demo passes on the clean tree) and is kept under',
       '`seeded/<id>/` (patch.diff re-based on the current /repo HEAD, demo.py, notes.md, meta.json, detection.json).  `selftest/run_seeded.py` applies',
       'each patch to /repo, runs the quick checks, and reverts.', '',
       '| seeded change | target | files | confirmed | caught by | run but missed | first clause reported |', '|---|---|---|---|---|---|---|']
for r in rows:
    out.append('| %s | %s | %s | %s | %s | %s | %s |' % r[:7])
out.append('')
block = '\n'.join(out)
s = open('/verif/DESIGN.md').read()
if '@@SECTION11@@' in s:
    s = s.replace('@@SECTION11@@', '<!-- S11 begin -->\n' + block + '\n<!-- S11 end -->')
else:
    s = re.sub(r'<!-- S11 begin -->.*?<!-- S11 end -->', lambda m: '<!-- S11 begin -->\n' + block + '\n<!-- S11 end -->', s, flags=re.S)
open('/verif/DESIGN.md', 'w').write(s)
print(len(rows), 'rows')
