"""Regenerate the tables of DESIGN.md section 8 (between <!-- S8.1 --> / <!-- S8.2 --> markers) from KNOWN_FINDINGS.json."""
import json, re
k = json.load(open('/verif/KNOWN_FINDINGS.json'))['findings']
def cell(s, n=400):
    s = re.sub(r'\s+', ' ', str(s)).replace('|', '/')
    return s if len(s) <= n else s[:n - 1] + '…'
fixed = ["| property | commit | what failed |", "|---|---|---|"]
for e in k:
    if e.get('status') == 'fixed':
        w = re.sub(r'^fixed: property=\S+ \S+ ', '', e.get('what', ''))
        fixed.append("| %s | %s | %s |" % (e['property'], e.get('commit', ''), cell(w)))
openf = ["| property | class | clause | region / guard | what | reproduce |", "|---|---|---|---|---|---|"]
for e in k:
    if e.get('status') == 'open':
        cl = e.get('clause', '*'); cl = ", ".join(cl) if isinstance(cl, list) else cl
        rg = " ".join(x for x in (e.get('region', ''), ("`%s`" % e['guard']) if e.get('guard', 'True') != 'True' else '') if x) or '—'
        openf.append("| %s | %s | %s | %s | %s | %s |" % (e['property'], e.get('cls', '*').split('.')[-1], cl, rg, cell(e.get('what', '')), cell(e.get('repro', ''), 200)))
s = open('/verif/DESIGN.md').read()
for tag, block in (('S8.1', "\n".join(fixed)), ('S8.2', "\n".join(openf))):
    s = re.sub(r'<!-- %s begin -->.*?<!-- %s end -->' % (tag, tag), lambda m: '<!-- %s begin -->\n%s\n<!-- %s end -->' % (tag, block, tag), s, flags=re.S)
open('/verif/DESIGN.md', 'w').write(s)
print(len(fixed) - 2, 'fixed', len(openf) - 2, 'open')
