#!/bin/sh
# confirm a seeded mutant in a scratch worktree (never in /repo):
#   usage: confirm_mutant.sh <property> <mutant-dir-with patch.diff+demo.py+notes.md> <name>
# applies the patch to a fresh worktree of /repo's initial commit line, runs the demo
# (must fail), the full unedited suite (must match the baseline), reverts, runs the demo (must pass).
prop=$1; src=$2; name=$3
wt=/tmp/wtc/$name
out=/verif/seeded/$name
mkdir -p $out /tmp/wtc
git -C /repo worktree remove --force $wt 2>/dev/null
base=${BASE:-HEAD}
git -C /repo worktree add -q --detach $wt $base || exit 2
cp $src/patch.diff $src/demo.py $out/ 2>/dev/null; cp $src/notes.md $out/ 2>/dev/null
cd $wt
if ! git apply --3way $out/patch.diff 2>/tmp/wtc/$name.apply; then
  if ! git apply $out/patch.diff 2>>/tmp/wtc/$name.apply; then echo "{\"property\":\"$prop\",\"status\":\"patch does not apply to $base\"}" > $out/meta.json; git -C /repo worktree remove --force $wt; exit 1; fi
fi
git diff HEAD > $out/patch.diff     # patch re-based on the current /repo HEAD
PYTHONPATH=$wt MPLBACKEND=Agg /venv/bin/python $out/demo.py > /tmp/wtc/$name.demo_mut 2>&1; d1=$?
PYTHONPATH=$wt MPLBACKEND=Agg /venv/bin/python -m pytest -q -p no:cacheprovider --timeout=900 -n ${NPROC:-6} exactpack/tests > /tmp/wtc/$name.suite 2>&1
line=$(tail -1 /tmp/wtc/$name.suite)
failed=$(grep "^FAILED" /tmp/wtc/$name.suite | tr '\n' ';')
git reset -q --hard HEAD; git clean -fdq
PYTHONPATH=$wt MPLBACKEND=Agg /venv/bin/python $out/demo.py > /tmp/wtc/$name.demo_clean 2>&1; d0=$?
cd /; git -C /repo worktree remove --force $wt
head=$(git -C /repo log --format=%h -1 $base)
cat > $out/meta.json <<EOM
{"property": "$prop", "name": "$name", "repo_commit": "$head",
 "demo_exit_with_patch": $d1, "demo_exit_clean": $d0,
 "suite_result_with_patch": "$line", "suite_failed_tests": "$failed",
 "confirmed": $( [ $d1 -ne 0 ] && [ $d0 -eq 0 ] && echo "$line" | grep -q "938 passed" && echo "$line" | grep -q "1 failed" && echo true || echo false ),
 "ran": "selftest/confirm_mutant.sh: git apply in a scratch worktree of /repo@$head; demo.py with patch; full pytest suite with patch; revert; demo.py clean"}
EOM
cat $out/meta.json
