"""re-run the clean-tree half of a mutant confirmation (demo.py against /repo HEAD)"""
import json, subprocess, sys
for name in sys.argv[1:]:
    d = '/verif/seeded/' + name
    m = json.load(open(d + '/meta.json'))
    p = subprocess.run(['/venv/bin/python', d + '/demo.py'], capture_output=True, text=True, env={'MPLBACKEND': 'Agg', 'PATH': '/usr/bin:/bin'}, cwd='/tmp')
    m['demo_exit_clean'] = p.returncode
    m['confirmed'] = bool(m['demo_exit_with_patch'] != 0 and p.returncode == 0 and '938 passed' in m['suite_result_with_patch'] and '1 failed' in m['suite_result_with_patch'])
    m['ran'] += '; clean-tree demo re-run against /repo HEAD by selftest/recheck_clean.py'
    json.dump(m, open(d + '/meta.json', 'w'), indent=1)
    print(name, m['demo_exit_with_patch'], m['demo_exit_clean'], m['suite_result_with_patch'][:40], m['confirmed'])
