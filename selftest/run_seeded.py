"""Run checks against seeded mutants: apply patch.diff to /repo, run ./check <prop> (quick), revert.
usage: run_seeded.py [--all-checks] [--tier T] name[:P1,P2..] ...     (names under /verif/seeded)"""
import json, os, subprocess, sys, time

def sh(cmd, **kw):
    return subprocess.run(cmd, shell=True, capture_output=True, text=True, **kw)

# by default the patch is applied to /repo itself and the checks of /verif are run; with SEED_REPO / SEED_VERIF set, a private
# snapshot of both is used instead (exactpack is then imported from the snapshot through PYTHONPATH) so that /repo stays free
REPO = os.environ.get("SEED_REPO", "/repo")
VERIF = os.environ.get("SEED_VERIF", "/verif")
PRE = ("PYTHONPATH=%s " % REPO) if REPO != "/repo" else ""

args = sys.argv[1:]
tier = "quick"
if "--tier" in args:
    i = args.index("--tier"); tier = args[i + 1]; del args[i:i + 2]
allchecks = "--all-checks" in args
args = [a for a in args if not a.startswith("--")]
man = json.load(open("/verif/MANIFEST.json"))
claimed = [c["property_id"] for c in man["checks"]]
assert sh("git -C %s status --porcelain" % REPO + "").stdout.strip() == "", "/repo not clean"
for a in args:
    name, _, props = a.partition(":")
    d = "/verif/seeded/" + name
    meta = json.load(open(d + "/meta.json"))
    props = props.split(",") if props else ([meta["property"]] if not allchecks else claimed)
    r = sh("git -C %s apply %s/patch.diff" % (REPO, d))
    if r.returncode != 0:
        print(name, "PATCH DOES NOT APPLY", r.stderr[:200]); continue
    det = {}
    try:
        for p in props:
            if p not in claimed:
                det[p] = {"status": "no check"}; continue
            t0 = time.time()
            r = sh("cd %s && %s./check %s --tier %s" % (VERIF, PRE, p, tier))
            viol = [l for l in r.stdout.splitlines() if l.startswith("VIOLATION")]
            det[p] = {"exit": r.returncode, "violations": [v[:220] for v in viol[:6]], "wall_s": round(time.time() - t0, 1)}
            print(name, p, "exit", r.returncode, "DETECTED" if r.returncode == 1 and viol else "missed", viol[0][60:200] if viol else "")
    finally:
        sh("git -C %s checkout -- . && git -C %s clean -fdq exactpack" % (REPO, REPO))
    old = {}
    if os.path.exists(d + "/detection.json"):
        old = json.load(open(d + "/detection.json"))
    old.update(det)
    json.dump(old, open(d + "/detection.json", "w"), indent=1)
assert sh("git -C %s status --porcelain" % REPO + "").stdout.strip() == "", "/repo not clean after run"
