#!/bin/sh
# offline setup: parse every specification module, create work dirs, check that
# /venv imports exactpack from /repo (editable install => current working tree)
cd "$(dirname "$0")" || exit 1
mkdir -p .work evidence replays
fail=0
for f in spec/*.tla; do
  out=$(cd spec && java -cp /opt/veriftools/tla/tla2tools.jar:/opt/veriftools/tla/CommunityModules-deps.jar tla2sany.SANY "$(basename "$f")" 2>&1)
  if echo "$out" | grep -qE "Semantic errors|Parse Error|\*\*\*Parse|Fatal|Could not"; then echo "SANY failed: $f"; echo "$out" | tail -5; fail=1; fi
done
/venv/bin/python -c "import exactpack,sys; sys.exit(0 if exactpack.__file__.startswith('/repo/') else 1)" || { echo "exactpack not imported from /repo"; fail=1; }
exit $fail
