"""C19 - 2-D steady Riemann problem: oblique-shock / Prandtl-Meyer relations, balanced slip line."""
from .. import scans
from .common import generic_replay


def run(tier):
    return scans.scan_check("C19", ("R2D.", "RH.", "GRAM."), {"R2D", "RH", "FIN"}, {"Riemann2D": ("riemann2d", {"R2D", "RH", "FIN"})}, tier,
                            require_patterns=[("SCR", ""), ("RCS", ""), ("SCS", "")])     # a fan on either side, shocks on both


def replay(path):
    return generic_replay("C19", path)
