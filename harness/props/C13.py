"""C13 - burn times are causal first-arrival times of a front moving at speed D."""
from .. import scans
from .common import generic_replay


def run(tier):
    fams = {f: ("burn", {"BURN", "FIN"}) for f in ("Kenamond1", "Kenamond2", "Kenamond3", "DSDcyl")}
    return scans.scan_check("C13", ("BURN.",), {"BURN"}, fams, tier)


def replay(path):
    return generic_replay("C13", path)
