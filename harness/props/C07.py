"""C07 - independent routes to the same solution agree."""
from .. import relcheck
from .common import generic_replay, COG

FAMS = ["Noh", "Noh2", "Sedov", "Rod1D", "RodNH", "Kenamond1", "Kenamond2", "Kenamond3", "RiemannIG"] + COG


def run(tier):
    return relcheck.rel_check("C07", ("ROUTE.",), FAMS, ["Route"], tier, sample={"IGEOS=GenEOS": 48, "Sedov": 24})


def replay(path):
    return generic_replay("C07", path)
