from .. import scans
from .common import fams, generic_replay, PATTERNS


def run(tier):
    return scans.scan_check("C04", ("INT.",), {"INT"}, fams({'INT'}, closed=False, sedov=False, extra=('RiemannGen','RiemannJWL')), tier, require_patterns=PATTERNS)


def replay(path):
    return generic_replay("C04", path)
