"""C08 - dimensional consistency."""
from .. import relcheck
from .common import generic_replay

FAMS = ["Noh", "Noh2", "Sedov", "RiemannIG", "Cog1", "Cog2", "Cog4", "Cog5", "Cog6", "Cog8", "Cog9", "Cog11", "Cog12", "Cog18", "Cog19", "Cog20", "Cog21", "EHEP", "Mader", "EPpiston", "Kenamond1", "Kenamond2",
        "Kenamond3", "DSDcyl", "Blake", "Rod1D", "Hutchens1", "Guderley", "RiemannGen"]


def run(tier):
    return relcheck.rel_check("C08", ("UNIT.",), FAMS, ["Unit"], tier, sample={"RiemannGen": 48, "RiemannIG": (None, 30000)})     # general-EOS solver: seconds per solve


def replay(path):
    return generic_replay("C08", path)
