from .. import scans
from .common import CLOSED_HYDRO, generic_replay


def run(tier):
    return scans.scan_check("C02", ("RH.",), {"RH"}, dict(CLOSED_HYDRO), tier)


def replay(path):
    return generic_replay("C02", path)
