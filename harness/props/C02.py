from .. import scans
from .common import fams, generic_replay, PATTERNS


def run(tier):
    return scans.scan_check("C02", ("RH.", "GRAM."), {"RH"}, fams({'RH'}, extra=('EHEP','EPpiston','Mader','BBNoh','SDRZ','RiemannGen','RiemannJWL','RMTV','Guderley')), tier, require_patterns=PATTERNS)


def replay(path):
    return generic_replay("C02", path)
