"""C16 - EOS library closures / partial derivatives and the Newton Jacobians of the
black-box Noh solver are self-consistent; converged solves satisfy the jump conditions."""
import contextlib, io, json, time, warnings

import numpy as np

from .. import core, tlc, encode as E
from .common import generic_replay


def make_eos(spec):
    import exactpack.solvers.nohblackboxeos.equations_of_state.eos_library as L
    kw = {k: E.qf(v) for k, v in spec["k"].items()} if isinstance(spec["k"], dict) else {}
    return getattr(L, spec["cls"])(**kw)


def d4(f, x, h):
    return (8 * (f(x + h) - f(x - h)) - (f(x + 2 * h) - f(x - 2 * h))) / (12 * h)


def state_probe(pb):
    eos = make_eos(pb["eos"])
    rho, e = E.qf(pb["rho"]), E.qf(pb["e"])
    if pb["eos"]["cls"] == "aluminum_eos":
        # densities either side of the reference density (not on it: the closures have a kink there), cgs energies
        rho = eos.reference_density * {0.5: 0.8, 1.0: 1.05, 3.0: 1.2, 8.0: 1.4}.get(rho, 1.1)
        e = e * 1.0e10
    P = eos.P(rho, e)
    eq = {}
    sc = max(abs(P), 1e-300)
    eq["closure-inverse.P(rho,e(rho,P))=P"] = E.e8([eos.P(rho, eos.e(rho, P)), -P], sc)
    eq["closure-inverse.e(rho,P(rho,e))=e"] = E.e8([eos.e(rho, P), -e], abs(e))
    hr, he, hp = 1e-3 * rho, 1e-3 * abs(e), 1e-3 * max(abs(P), abs(rho * e))     # P may vanish (stiffened gas in tension): the step follows rho e
    for name, an, fd, s in (
            ("dP_drho", eos.dP_drho(rho, e), d4(lambda x: eos.P(x, e), rho, hr), None),
            ("dP_de", eos.dP_de(rho, e), d4(lambda x: eos.P(rho, x), e, he), None),
            ("de_drho", eos.de_drho(rho, P), d4(lambda x: eos.e(x, P), rho, hr), None),
            ("de_dP", eos.de_dP(rho, P), d4(lambda x: eos.e(rho, x), P, hp), None)):
        eq["partial." + name] = E.e8([an, -fd], max(abs(an), abs(fd), 1e-300))
    return eq


def jac_probe(pb):
    import exactpack.solvers.nohblackboxeos.solution_tools.residual_functions as R
    eos = make_eos(pb["eos"])
    ic = {"density": E.qf(pb["rho0"]), "velocity": E.qf(pb["u0"]), "pressure": E.qf(pb.get("p0", [0, 1])), "symmetry": pb["symmetry"]}
    if pb["eos"]["cls"] == "aluminum_eos":
        ic["density"] = eos.reference_density; ic["velocity"] = ic["velocity"] * 2.0e5     # an impact at km/s
        ic["pressure"] = ic["pressure"] * 1.0e10
    fn = getattr(R, pb["fn"])(ic, eos)
    rho, e = E.qf(pb["rho"]) * ic["density"] * 2, E.qf(pb["e"]) * ic["velocity"] ** 2
    if pb["eos"]["cls"] == "aluminum_eos":
        rho = 1.3 * eos.reference_density
    second = eos.P(rho, e) if "pressure" in pb["fn"] else e
    D = 0.4 * abs(ic["velocity"]) if pb["eos"]["cls"] != "aluminum_eos" else eos.c_0
    x0 = np.array([rho, second, D], float)
    try:
        F0 = np.array(fn.F(x0.copy()), float).ravel()
    except Exception:
        x0 = x0[[0, 2]] if "simplified" in pb["fn"] else x0
        F0 = np.array(fn.F(x0.copy()), float).ravel()
    n = len(F0)
    if len(x0) != n:
        x0 = np.array([rho, D], float) if n == 2 else x0
        F0 = np.array(fn.F(x0.copy()), float).ravel()
    J = np.array(fn.F_prime(x0.copy()), float).reshape(n, n).copy()
    Ji = np.array(fn.F_prime_inv(x0.copy()), float).reshape(n, n).copy()
    eq = {}
    for j in range(n):
        h = 1e-4 * abs(x0[j])
        def comp(x, j=j):
            y = x0.copy(); y[j] = x
            return np.array(fn.F(y), float).ravel().copy()
        col = d4(comp, x0[j], h)
        for i in range(n):
            sc = max(np.max(np.abs(J[i])) * 1.0, abs(col[i]), 1e-300)
            eq["jacobian[%d,%d]" % (i, j)] = E.e8([J[i, j], -col[i]], max(abs(J[i, j]), abs(col[i]), 1e-6 * np.max(np.abs(J[:, j]))))
    I = J @ Ji
    # (J J^-1)[i,j] carries the units of F_i / F_j: compared after scaling with the size of each residual component
    fsz = np.array([max(np.max(np.abs(J[i] * x0)), 1e-300) for i in range(n)])
    for i in range(n):
        for j in range(n):
            eq["inverse[%d,%d]" % (i, j)] = E.e8([I[i, j] * fsz[j] / fsz[i], -(1.0 if i == j else 0.0)], 1.0)
    return eq


def newton_probe(pb):
    from exactpack.solvers.nohblackboxeos.blackboxnoh import NohBlackBoxEos
    eos = make_eos(pb["eos"])
    rho0, u0, sym = E.qf(pb["rho0"]), E.qf(pb["u0"]), pb["symmetry"]
    p0 = E.qf(pb.get("p0", [0, 1]))
    ic = {"density": rho0, "velocity": u0, "pressure": p0, "symmetry": sym}
    alu = pb["eos"]["cls"] == "aluminum_eos"
    if alu:
        rho0 = float(eos.reference_density); u0 = u0 * 2.0e5
        ic["density"], ic["velocity"] = rho0, u0
    retuned = pb.get("via") == "retuned"
    if retuned:
        # the solver is first used with the class's default constants (same gamma), then the very same EOS object is
        # re-tuned through its public setters to the constants of this probe
        import exactpack.solvers.nohblackboxeos.equations_of_state.eos_library as L
        target = {k: E.qf(v) for k, v in pb["eos"]["k"].items()}
        eos = getattr(L, pb["eos"]["cls"])(gamma=target["gamma"]) if pb["eos"]["cls"] != "carnahan_starling_eos" else \
            getattr(L, pb["eos"]["cls"])(gamma=target["gamma"], b=0.02)
    s = NohBlackBoxEos(eos, ic, geometry=sym + 1, rho0=rho0, u0=u0)
    # a physically reasonable starting guess: compression of the corresponding ideal gas, e ~ u0^2/2, D ~ |u0|/2
    g = getattr(eos, "gamma", 5.0 / 3.0)
    guess_rho = rho0 * ((g + 1) / (g - 1)) ** (sym + 1) * 0.7 if pb["eos"]["cls"] != "aluminum_eos" else 1.05 * rho0
    if pb["eos"]["cls"] in ("noble_abel_eos", "carnahan_starling_eos"):
        guess_rho = min(guess_rho, 0.6 / eos.b)
    s.set_new_solver_initial_guess([guess_rho, 0.45 * u0 * u0, 0.6 * abs(u0) * (g - 1)] if not alu else [1.2 * rho0, 0.5 * u0 * u0, eos.c_0])
    if retuned:
        try:
            s.solve_jump_conditions()
        except Exception:
            pass                      # the first use only serves to give the solver a past
        if "c_s" in target:
            eos.set_new_sound_speed(target["c_s"]); eos.set_new_reference_density(target["rho_inf"])
        if "b" in target:
            eos.set_new_co_volume(target["b"])
        s.set_new_solver_initial_guess([guess_rho, 0.45 * u0 * u0, 0.6 * abs(u0) * (g - 1)])
    s.solve_jump_conditions()
    sd = s.solution_data
    if not sd.get("converged", True) if isinstance(sd, dict) else False:
        return None, None
    rho2, e2, D = float(s.shocked_density), float(s.shocked_energy), float(s.shock_speed)
    P2 = float(s.shocked_pressure)                  # the pressure the solver returns behind the shock
    # pre-shock state just ahead of the shock (geometric convergence of the cold inflow): rho1 = rho0 (1 - u0/D)^sym
    rho1 = rho0 * (1.0 - u0 / D) ** sym
    m = rho1 * (u0 - D)
    eq = {"newton.mass": E.e8([rho2 * (0.0 - D), -m]),
          "newton.momentum": E.e8([rho2 * D * D, P2, -(rho1 * (u0 - D) ** 2), -p0]),
          "newton.energy": E.e8([rho2 * (-D) * (e2 + D * D / 2), P2 * (-D), -(m * (eos.e(rho1, p0) + (u0 - D) ** 2 / 2)), -p0 * (u0 - D)]),
          "newton.pressure=P(rho,e)": E.e8([P2, -float(eos.P(rho2, e2))])}
    return eq, D


def perform(pb, tid):
    ev = {"tid": tid, "kind": pb["kind"], "cls": pb["eos"]["cls"], "raised": False, "eq": {}}
    try:
        with contextlib.redirect_stdout(io.StringIO()), warnings.catch_warnings():
            warnings.simplefilter("ignore")
            with np.errstate(all="ignore"):
                if pb["kind"] == "state":
                    ev["eq"] = state_probe(pb)
                elif pb["kind"] == "jacobian":
                    ev["eq"] = jac_probe(pb)
                else:
                    eq, D = newton_probe(pb)
                    if eq is None:
                        ev["skipped"] = "no convergence reported"
                    else:
                        ev["eq"] = eq; ev["speed"] = E.sl(D)
    except E.EncodeError as ex:
        ev["raised"] = True; ev["error"] = "non-finite: " + str(ex)[:150]
    except Exception as ex:
        if pb["kind"] == "newton" and type(ex).__name__ == "IterationError":
            ev["skipped"] = "Newton iteration did not converge (the property speaks about reported convergence only)"
        else:
            ev["raised"] = True; ev["error"] = type(ex).__name__ + ": " + str(ex)[:150]
    return ev


def run(tier):
    t0 = time.time()
    verdict = core.Verdict("C16")
    wd = tlc.workdir("C16gen")
    core.write_cfg(wd + "/e.cfg", ["SPECIFICATION Spec", "CONSTANTS", '  Tier = "%s"' % tier, "INVARIANT Emit"])
    res = tlc.must(tlc.run("EosCampaign", wd + "/e.cfg", "C16gen", workers=1))
    pbs, seen = [], set()
    for j in res["json"]:
        if "kind" in j:
            k = json.dumps(j, sort_keys=True)
            if k not in seen:
                seen.add(k); pbs.append(j)
    pbs.sort(key=lambda p: json.dumps(p, sort_keys=True))
    events = [perform(p, i + 1) for i, p in enumerate(pbs)]
    info = {e["tid"]: e.pop("error", None) for e in events}
    skipped = sum(1 for e in events if e.pop("skipped", None))
    tv = core.validate_trace("TraceEos", "TraceEos.cfg", events, "C16")
    if not tv["accepted"]:
        raise tlc.TLCError("eos trace not consumed")
    for fl in tv["failed"]:
        e, p = events[fl["i"] - 1], pbs[fl["i"] - 1]
        for clause in fl["failed"]:
            cfg = {"kind": p["kind"], "fn": p.get("fn", ""), "symmetry": p.get("symmetry", -1), "rho": E.qf(p["rho"]) if "rho" in p else 0.0,
                   "p0": E.qf(p["p0"]) if "p0" in p else 0.0, "via": p.get("via", "")}
            verdict.fail({"cls": p["eos"]["cls"], "clause": clause, "cfg": cfg}, {"probe": p, "event": e, "clause": clause, "error": info.get(e["tid"])})
    rc = verdict.finish()
    distinct = {(p["kind"], p["eos"]["cls"], json.dumps(p["eos"]["k"], sort_keys=True), p.get("fn", ""), p.get("symmetry", ""), p.get("via", "")) for p in pbs}
    cov = {"states": res["distinct"] + tv["states"], "transitions": res["states"] + tv["generated"],
           "traces_validated_against_impl": len(events), "samples": [{"probe": pbs[0], "event": events[0]}],
           "evaluations": len(events), "distinct_nontrivial": len(distinct),
           "rule": "spec/EosCampaign.tla: 5 EOS classes x constants x (rho, e) states in the domain of validity (closures + 4 partials), 4 residual formulations x 3 symmetries x initial "
                   "states (Jacobian vs 4th-order difference of F, Jacobian x inverse = I), Newton solves from a physical guess (jump conditions, D > 0); distinct = (kind, class, constants, formulation, symmetry)",
           "probes": len(pbs), "newton_not_converged_skipped": skipped, "known_findings_hit": verdict.known, "exhaustive": True}
    core.write_evidence("C16", tier, "model_checking", cov, time.time() - t0, len(verdict.violations),
                        ["central differences (4th order, relative step 1e-3 / 1e-4) as the reference for derivatives; tolerance 2e-5"])
    return rc


def replay(path):
    return generic_replay("C16", path)
