"""C06 - a value depends only on (parameters, point, time).  spec/Interp.tla is
model-checked (HistoryIndependent over all interleavings of a few objects), TLC
generates behaviours over the concrete stateful classes, each is replayed in a
fresh process and every call is compared with its fresh-process oracle; the
events are validated against Interp by spec/TraceInterp.tla."""
import json, multiprocessing as mp, os, time

from .. import core, tlc, registry, interp
from .common import generic_replay

SLOW = set()      # (GenEOS with 1001-point tables, ED_Solver and Guderley with gamma = 3 all take less than a second per operation)
TEMPLATE_ONLY = {"riemann.ep_riemann.GenEOS_Solver@JWL", "sedov.sedov.Sedov@vacuum"}      # slow: systematic templates only, not in the random behaviours


def gen_module(wd, name, classes, extends, emit):
    kinds = {c: registry.STATEFUL[c][0] for c in classes}
    mods = {c: registry.STATEFUL[c][1] for c in classes}
    def fn(d):
        arms = ['c = "%s" -> "%s"' % (c, v) for c, v in sorted(d.items())]
        return "[c \\in GClasses |-> CASE " + " [] ".join(arms) + "]"
    txt = ["---- MODULE %s ----" % name, "EXTENDS %s" % extends,
           "GClasses == {%s}" % ", ".join('"%s"' % c for c in sorted(classes)),
           "GKind == " + fn(kinds), "GModule == " + fn(mods)]
    if emit:
        txt.append('Emit == IF Len(hist) = MaxOps THEN PrintT(ToJson([behaviour |-> hist])) ELSE TRUE')
    txt.append("====")
    with open(os.path.join(wd, name + ".tla"), "w") as f:
        f.write("\n".join(txt) + "\n")


def gen_cfg(wd, name, spec, maxops, extra):
    lines = ["SPECIFICATION " + spec, "CONSTANTS", "  Classes <- GClasses", "  Kind <- GKind", "  Module <- GModule",
             "  Cfgs = {1, 2}", "  Objs = {1, 2, 3}", '  Variants = {"full", "perm", "subset", "superset", "dup", "inner"}',
             "  Tols = {1, 2}", "  MaxOps = %d" % maxops, "  SharedSolver = FALSE", "CHECK_DEADLOCK FALSE"] + extra
    core.write_cfg(os.path.join(wd, name), lines)


def interesting(beh):
    calls = [i for i, op in enumerate(beh) if op["op"] == "Call"]
    return any(any(op["obj"] != beh[i]["obj"] or op["op"] == "Call" for op in beh[:i] if op["op"] != "Construct" or op["obj"] != beh[i]["obj"])
               for i in calls)


DEFECTS = ["clscache", "ctorglob", "objcache", "timelag", "accum", "batchpos"]
CLASS_LEVEL = {"clscache", "ctorglob", "timelag", "accum"}          # what the bystander / own-past pattern of the scan drivers can expose


def defect_model():
    wd = tlc.workdir("C06defects")
    out = {}

    def violated(module, base, d, planset=None):
        txt = open(os.path.join(tlc.SPEC, base)).read().replace('Defect = "none"', 'Defect = "%s"' % d)
        if planset:
            txt = txt.replace('PlanSet = "templates"', 'PlanSet = "%s"' % planset)
        name = "%s_%s_%s.cfg" % (module, d, planset or "all")
        with open(os.path.join(wd, name), "w") as f:
            f.write(txt)
        r = tlc.run(module, name, "C06def_%s_%s_%s" % (module, d, planset), workers=1, moddir=wd, timeout=600)
        if not r["ok"] and not r["invariant_violated"]:
            raise tlc.TLCError("defect model %s/%s failed: %s" % (module, d, r["error"]))
        return bool(r["invariant_violated"]), r
    states = 0
    for d in ["none"] + DEFECTS:
        vis, r1 = violated("InterpDefects", "InterpDefects.cfg", d)
        tpl, r2 = violated("InterpDefectsTpl", "InterpDefectsTpl.cfg", d, "templates")
        scn, r3 = violated("InterpDefectsTpl", "InterpDefectsTpl.cfg", d, "scan")
        states += r1.get("distinct", 0) + r2.get("distinct", 0) + r3.get("distinct", 0)
        out[d] = {"visible_in_some_behaviour": vis, "exposed_by_a_template": tpl, "exposed_by_scan_with_bystander": scn}
        if d == "none" and (vis or tpl or scn):
            raise RuntimeError("defect model: Pure is violated without a defect")
        if d != "none" and not (vis and tpl):
            raise RuntimeError("defect model: %s is %s" % (d, "not visible" if not vis else "not exposed by any template of InterpPlans"))
        if d != "none" and scn != (d in CLASS_LEVEL):
            raise RuntimeError("defect model: scan-with-bystander exposure of %s is %s (expected %s)" % (d, scn, d in CLASS_LEVEL))
    out["states"] = states
    return out


def run(tier):
    t0 = time.time()
    verdict = core.Verdict("C06")
    seed = core.seed()
    # 1. model level: HistoryIndependent over all interleavings (abstract classes, one per kind)
    mc_cfg = "InterpMC_fixed.cfg" if tier == "thorough" else "InterpMC_quick.cfg"
    mres = tlc.run("InterpMC", mc_cfg, "C06mc", workers=8, timeout=3000)
    if not mres["ok"]:
        if mres["invariant_violated"]:
            verdict.fail({"cls": "Interp", "clause": "MODEL." + mres["invariant_violated"][0], "cfg": {}},
                         {"tlc": mres["out"][-3000:]})
        else:
            raise tlc.TLCError("InterpMC failed: %s" % mres["error"])
    # 1b. the defect model (spec/InterpDefects.tla): every modelled way of leaking state is visible to TLC, is exposed by one of
    #     the templates replayed below, and (class-level defects) by the bystander pattern of the law checks; "none" is clean
    defects = defect_model()
    # 2. behaviours over the concrete classes (seeded simulation)
    classes = [c for c in registry.STATEFUL if (c not in SLOW) and c not in TEMPLATE_ONLY]
    tclasses = classes + sorted(TEMPLATE_ONLY)
    wd = tlc.workdir("C06gen")
    maxops = 6 if tier == "quick" else 7
    gen_module(wd, "InterpGen", classes, "Interp, Json", True)
    gen_cfg(wd, "InterpGen.cfg", "Spec", maxops, ["INVARIANT Emit"])
    n = 40 if tier == "quick" else 400
    gres = tlc.run("InterpGen", "InterpGen.cfg", "C06sim", workers=1, simulate="num=%d" % n, depth=maxops + 1,
                   seed=seed + 11, moddir=wd, timeout=1200)
    behs, seen = [], set()
    for j in gres["json"]:
        if "behaviour" in j:
            k = json.dumps(j["behaviour"], sort_keys=True)
            if k not in seen and interesting(j["behaviour"]):
                seen.add(k); behs.append(j["behaviour"])
    import random
    random.Random(seed + 5).shuffle(behs)
    behs = behs[:(200 if tier == "quick" else 3000)]
    # systematic templates (spec/InterpTemplates.tla), stepped through Interp by TLC
    gen_module(wd, "InterpTpl", tclasses, "InterpTemplates", False)
    gen_cfg(wd, "InterpTpl.cfg", "PSpec", 0, ["INVARIANT HistoryIndependent", "INVARIANT PEmit"])
    pres = tlc.must(tlc.run("InterpTpl", "InterpTpl.cfg", "C06tpl", workers=4, moddir=wd, timeout=1200))
    ntpl = 0
    for j in pres["json"]:
        if "behaviour" in j:
            k = json.dumps(j["behaviour"], sort_keys=True)
            if k not in seen:
                seen.add(k); behs.append(j["behaviour"]); ntpl += 1
    if len(behs) < 20:
        raise RuntimeError("behaviour generation produced too few behaviours (%d): %s" % (len(behs), gres["out"][-1500:]))
    # 3. replay + oracles in processes forked from this pristine parent (no solver was ever built here)
    registry.registry()
    import exactpack.solvers.riemann.ep_riemann, exactpack.solvers.radshocks.nED_radshocks  # noqa: F401  (import cost once)
    tasks, index = [], {}
    def task_id(ops):
        k = json.dumps(ops, sort_keys=True)
        if k not in index:
            index[k] = len(tasks); tasks.append(ops)
        return index[k]
    plan = []
    for b in behs:
        bid = task_id(b)
        per = []
        for i, op in enumerate(b):
            if op["op"] != "Call":
                per.append(None); continue
            orc = task_id(interp.project(b, i))
            cls = next(o["cls"] for o in b[:i] if o["op"] == "Construct" and o["obj"] == op["obj"])
            cfg = next(o["cfg"] for o in b[:i] if o["op"] == "Construct" and o["obj"] == op["obj"])
            ref_ops = interp.project(b, i)[:-1] + [dict(op, variant="full")]
            # batch reference: a fresh object, the plain request
            ref_ops = [dict(ref_ops[0])] + [dict(op, variant="full")]
            per.append((orc, task_id(ref_ops), cls, cfg))
        plan.append((bid, per))
    reg = registry.registry()
    btasks = []
    for name, sp in reg.items():
        if not sp.constructible or sp.cost == "veryslow" or sp.min_n > 1 or name.endswith("CylindricalSandwich"):
            continue
        if sp.cost == "slow" and tier == "quick" and not name.startswith(("sedov.sedov", "riemann")):
            continue
        btasks.append((name, False, seed))
        if sp.alt:
            btasks.append((name, True, seed))
    ctx = mp.get_context("fork")
    with ctx.Pool(min(16, os.cpu_count() or 4), maxtasksperchild=1) as pool:
        results = pool.map(interp._task, tasks, chunksize=1)
        bres = pool.map(interp.batch_task, btasks, chunksize=1)
    # 4. events
    events, ncalls, nontriv = [], 0, set()
    for tid, (b, (bid, per)) in enumerate(zip(behs, plan), start=1):
        res = results[bid]
        for i, op in enumerate(b):
            ev = dict(op); ev["tid"] = tid
            ev.setdefault("dict", op.get("obj"))
            if op["op"] == "Call":
                orc, refid, cls, cfg = per[i]
                r, o = res[i], results[orc][-1]
                ref = results[refid][-1]
                raised = r is None or "raised" in r
                oraised = o is None or "raised" in o
                dev = 0 if (raised or oraised) else interp.compare(r, o)
                bdev = 0
                if not raised and ref is not None and "raised" not in ref:
                    # compare the points this request shares with the plain request
                    import numpy as np
                    worst = 0
                    for nm, vals in r["f"].items():
                        rv = ref["f"].get(nm)
                        if rv is None:
                            continue
                        scale = max(max((abs(x) for x in rv if x == x), default=0.0), 1e-300)
                        for val, ix in zip(vals, r["idx"]):
                            if ix is None:
                                continue
                            a, bb = val, rv[ix]
                            if a == bb or (a != a and bb != bb):
                                continue
                            d = abs(a - bb) / max(abs(a), abs(bb), 1e-6 * scale) if (a == a and bb == bb) else 1.0
                            worst = max(worst, int(min(1e9, round(d * 1e9))))
                    bdev = worst
                ev.update({"raised": bool(raised), "oracle_raised": bool(oraised), "dev": int(dev), "bdev": int(bdev),
                           "grid": cls in registry.GRID_DEPENDENT, "cls": cls, "cfg": cfg})
                ncalls += 1
                nontriv.add((cls, cfg, op["variant"], op["t"], len([x for x in b[:i] if x["op"] == "Call"])))
            events.append(ev)
        events.append({"tid": tid, "op": "Reset"})
    binfo = []
    for br in bres:
        events.append({"tid": 0, "op": "Batch", "cls": br["cls"], "cfg": br["cfg"], "raised": bool(br["raised"]), "dev": int(br["dev"]),
                       "grid": br["cls"] in registry.GRID_DEPENDENT or br["cls"].startswith(("sedov.", "radshocks.")), "bid": len(binfo)})
        binfo.append(br)
        nontriv.add((br["cls"], br["cfg"], "batch"))
    gen_module(wd, "TraceInterpGen", tclasses, "TraceInterp", False)
    gen_cfg(wd, "TraceInterpGen.cfg", "TSpec", 0, ["POSTCONDITION Accepted"])
    path = os.path.join(wd, "trace.json")
    with open(path, "w") as f:
        json.dump(events, f)
    tres = tlc.run("TraceInterpGen", "TraceInterpGen.cfg", "C06trace", env={"TRACE_FILE": path}, workers=1, moddir=wd,
                   javaopts=["-Xmx8g"], timeout=3000)
    if not tres["ok"]:
        if "Accepted" in tres["out"]:
            consumed = tres["depth"] - 1
            bad = events[consumed] if 0 <= consumed < len(events) else None
            verdict.fail({"cls": (bad or {}).get("cls", "?"), "clause": "HIST.reject", "cfg": {}}, {"reject_at": consumed, "event": bad})
        else:
            raise tlc.TLCError("TraceInterp crashed: %s\n%s" % (tres["error"], tres["out"][-2000:]))
    for fl in [j for j in tres["json"] if "failed" in j]:
        e = events[fl["i"] - 1]
        b = behs[fl["tid"] - 1] if fl["tid"] > 0 else None
        for clause in fl["failed"]:
            verdict.fail({"cls": e.get("cls"), "clause": clause, "cfg": {"cfg": e.get("cfg"), "variant": e.get("variant")}},
                         {"behaviour": b, "event": e, "clause": clause,
                          "batch": binfo[e["bid"]] if e.get("op") == "Batch" else None})
    rc = verdict.finish()
    cov = {"states": mres.get("distinct", 0) + tres.get("distinct", 0) + gres.get("distinct", 0) + defects.get("states", 0),
           "transitions": mres.get("states", 0) + tres.get("states", 0) + gres.get("states", 0),
           "traces_validated_against_impl": len(behs),
           "defect_model": defects,
           "samples": [{"behaviour": behs[0], "events": [e for e in events[:12] if e.get("op") == "Call"][:2]}],
           "evaluations": ncalls, "distinct_nontrivial": len(nontriv),
           "rule": "Interp.tla model-checked exhaustively on abstract classes (one per kind of state; all interleavings of Construct/SetTol/Solve/Call over 2 objects, "
                   "depth in the cfg); behaviours over the concrete stateful classes generated by TLC -simulate (seed = VERIF_SEED) and kept when a call is preceded by "
                   "an operation on another object or an earlier call; every behaviour and every oracle runs in its own process forked from a pristine parent; "
                   "distinct = (class, parameter set, request variant, time, number of earlier calls)",
           "model_states": mres.get("distinct", 0), "behaviours": len(behs), "template_behaviours": ntpl, "processes": len(tasks), "calls_compared": ncalls, "batch_sweeps": len(bres), "batch_sweeps_raised": sorted({b_["cls"] for b_ in bres if b_["raised"]}),
           "classes": sorted(tclasses), "known_findings_hit": verdict.known, "exhaustive": False}
    core.write_evidence("C06", tier, "model_checking", cov, time.time() - t0, len(verdict.violations),
                        ["a process forked from a parent that imported exactpack but never constructed a solver is equivalent to a fresh interpreter",
                         "black-box Noh: the oracle replays all operations on the same object (setters are configuration); other objects must not matter",
                         "Guderley is replayed with gamma = 3 / 2 only (gamma = 1.4 takes minutes per call)"])
    return rc


def replay(path):
    return generic_replay("C06", path)
