"""C14 - heat solutions satisfy the heat equation, boundary conditions, initial data and limits."""
from .. import scans
from .common import generic_replay


def run(tier):
    fams = {f: ("heat", {"HEAT", "FIN"}) for f in ("Rod1D", "RodNH", "Sandwich", "Hutchens1", "Rectangle", "Hutchens2", "CylSandwich")}
    return scans.scan_check("C14", ("HEAT.", "FIN"), {"HEAT"}, fams, tier)


def replay(path):
    return generic_replay("C14", path)
