"""C20 - invalid problems are rejected loudly; no finite garbage outside the
validity domain; no NaN/inf inside it.  (a) spec/Validation.tla: the catalogue of
documented restrictions, every probe enumerated by TLC with its expected outcome
and replayed on the real classes; (b) NoGarbage: every admissible configuration of
the scan campaigns (spec/Campaign.tla) must return finite values (clause FIN)."""
import contextlib, io, json, time, warnings

import numpy as np

from .. import core, tlc, registry, encode as E, scans
from .common import generic_replay, fams


def perform(probe):
    reg = registry.registry()
    r = probe["r"]
    sp = reg[r["cls"]]
    v = probe["v"]
    val = v if isinstance(v, int) else E.qf(v)
    ev = {"kind": r["kind"], "cls": r["cls"], "par": r["par"], "violated": bool(probe["violated"]),
          "how": r.get("how", ""), "value": repr(val)}
    kwargs = dict(sp.kwargs)
    args = sp.args() if callable(sp.args) else sp.args
    with warnings.catch_warnings():
        warnings.simplefilter("ignore")
        with np.errstate(all="ignore"), contextlib.redirect_stdout(io.StringIO()):
            if r["kind"] in ("param", "member"):
                if "[" in r["par"]:
                    # one element of a list-valued parameter, the others at their documented defaults
                    name, idx = r["par"][:-1].split("[")
                    lst = list(kwargs.get(name, getattr(sp.cls, name)))
                    lst[int(idx)] = val
                    kwargs[name] = lst
                else:
                    kwargs[r["par"]] = val
                try:
                    sp.cls(*args, **kwargs)
                    ev["outcome"] = "ok"
                except Exception as ex:
                    ev["outcome"] = type(ex).__name__
            else:
                try:
                    s = sp.build()
                    if probe.get("warm"):
                        # the object has a past: a valid request on a grid twice as long, at the class's standard time
                        try:
                            big = sp.as_array(sp.request(max(5, sp.min_n)))
                            s(big * 2.0, sp.t)
                        except Exception:
                            pass
                        ev["par"] = "t (after an earlier valid call)"
                    sol = s(sp.as_array(sp.request(max(3, sp.min_n))), val)
                    fin = []
                    pos = set(n for n in sol.dtype.names if n.startswith(("position", "radius", "x_pos", "y_pos")))
                    for n in sol.dtype.names:
                        a = np.asarray(sol[n])
                        if n in pos or a.dtype.kind != "f":
                            continue
                        fin.append(bool(np.all(np.isfinite(a))))
                    ev["outcome"] = "finite" if all(fin) else "nonfinite"
                except Exception as ex:
                    ev["outcome"] = type(ex).__name__
    return ev


def run(tier):
    t0 = time.time()
    verdict = core.Verdict("C20")
    res = tlc.must(tlc.run("Validation", "Validation.cfg", "C20gen", workers=1))
    probes, seen = [], set()
    for j in res["json"]:
        if "r" in j:
            k = json.dumps(j, sort_keys=True)
            if k not in seen:
                seen.add(k); probes.append(j)
    probes.sort(key=lambda p: json.dumps(p, sort_keys=True))
    # the domain of a request does not depend on what the object was asked before: every time probe also on an object with a past
    probes += [dict(p, warm=True) for p in probes if p["r"]["kind"] == "time"]
    events = []
    for i, p in enumerate(probes):
        ev = perform(p); ev["tid"] = i + 1
        events.append(ev)
    tv = core.validate_trace("TraceValidation", "TraceValidation.cfg", events, "C20")
    if not tv["accepted"]:
        raise tlc.TLCError("validation trace not consumed")
    for fl in tv["failed"]:
        e = events[fl["i"] - 1]
        for clause in fl["failed"]:
            verdict.fail({"cls": e["cls"], "clause": clause, "cfg": {"par": e["par"], "value": e["value"], "outcome": e["outcome"]}},
                         {"probe": probes[fl["i"] - 1], "event": e, "clause": clause})
    # (b) NoGarbage over the admissible scan campaigns
    fm = fams({"FIN"}, extra=("EHEP", "EPpiston", "Mader", "BBNoh", "SDRZ", "RiemannGen", "RiemannJWL", "RMTV", "Guderley"))
    fm["RadShock"] = ("radshock", {"RAD", "FIN"})
    fm["SuOlson"] = ("suolson", {"SUOL", "FIN"})
    for f_ in ("Kenamond1", "Kenamond2", "Kenamond3", "DSDcyl"):
        fm[f_] = ("burn", {"BURN", "FIN"})
    fm["Blake"] = ("blake", {"ELAS", "FIN"})
    for f_ in ("Rod1D", "RodNH", "Sandwich", "Hutchens1", "Rectangle", "Hutchens2"):
        fm[f_] = ("heat", {"HEAT", "FIN"})
    nog = scans.scan_collect("C20", ("FIN",), fm, tier, verdict)
    rc = verdict.finish()
    restr = {(p["r"]["cls"], p["r"]["par"], p["r"].get("rel", "member"), json.dumps(p["r"].get("b", p["r"].get("ok")))) for p in probes}
    cov = {"states": res["distinct"] + tv["states"] + nog["states"], "transitions": res["states"] + tv["generated"] + nog["transitions"],
           "traces_validated_against_impl": len(events) + nog["traces"],
           "samples": [{"probe": probes[0], "event": events[0]}, {"probe": probes[-1], "event": events[-1]}],
           "evaluations": len(events) + nog["evaluations"], "distinct_nontrivial": len(restr) + nog["distinct"],
           "rule": "every documented restriction of spec/Validation.tla probed below / at / above its bound (members and non-members for set-valued ones); "
                   "ASSUME Covered: each restriction has a violating and an admissible probe; distinct = restrictions; plus the FIN clause on every point of every "
                   "admissible configuration of the scan campaigns",
           "restrictions": len(restr), "probes": len(probes), "nogarbage_configs": nog["traces"], "nogarbage_points": nog["points"],
           "solver_raised_on_admissible_config": nog["raised"],
           "known_findings_hit": verdict.known, "exhaustive": True}
    core.write_evidence("C20", tier, "model_checking", cov, time.time() - t0, len(verdict.violations),
                        ["the catalogue lists the restrictions found in docstrings, parameter help and error messages (DESIGN.md B.1); an undocumented restriction is not demanded"])
    return rc


def replay(path):
    return generic_replay("C20", path)
