"""C15 - Blake: (a) the returned fields solve the spherical elastic wave problem (scan laws
of Catalogue.FieldLaws("Blake")); (b) Exact_Elastic: the six elastic parameters describe one
positive-definite material whichever of the 15 pairs specifies it (exact rational model,
conformance replay of every TLC state)."""
import contextlib, io, json, time, warnings

import numpy as np

from .. import core, tlc, scans, encode as E
from .common import generic_replay

NAMES = ["lame_mod", "shear_mod", "youngs_mod", "poisson_ratio", "bulk_mod", "long_mod"]


def perform(p, tid):
    from exactpack.solvers.blake.blake import Blake
    v1, v2 = E.qf(p["v1"]), E.qf(p["v2"])
    ev = {"tid": tid, "first": p["first"], "second": p["second"], "v1": E.sl(v1), "v2": E.sl(v2), "pd": bool(p["pd"]),
          "twovalued": bool(p["twovalued"]), "model": {n: E.sl(E.qf(p["six"][n])) for n in NAMES},
          "got": {}, "ids": {}, "fl": E.sl(1e-9 * max(abs(E.qf(p["six"][n])) for n in NAMES))}
    try:
        with contextlib.redirect_stdout(io.StringIO()), warnings.catch_warnings():
            warnings.simplefilter("ignore")
            s = Blake(**{p["first"]: v1, p["second"]: v2})
        ev["outcome"] = "ok"
        g = {n: float(getattr(s, n)) for n in NAMES}
        if not all(np.isfinite(list(g.values()))):
            ev["outcome"] = "nonfinite"
        else:
            ev["got"] = {n: E.sl(v) for n, v in g.items()}
            lam, G_, Ey, nu, K, M = (g[n] for n in NAMES)
            sc = max(abs(v) for v in g.values())
            ev["ids"] = {"E=2G(1+nu)": E.e8([Ey, -2 * G_, -2 * G_ * nu], sc), "E=3K(1-2nu)": E.e8([Ey, -3 * K, 6 * K * nu], sc),
                         "M=K+4G/3": E.e8([M, -K, -4 * G_ / 3], sc), "lambda=K-2G/3": E.e8([lam, -K, 2 * G_ / 3], sc)}
    except Exception as ex:
        ev["outcome"] = type(ex).__name__
    return ev


def run(tier):
    t0 = time.time()
    verdict = core.Verdict("C15")
    # (b) exact model: algebra checked by TLC, every state replayed
    res = tlc.must(tlc.run("Exact_Elastic", "Exact_Elastic.cfg", "C15gen", workers=1))
    probes, seen = [], set()
    for j in res["json"]:
        if "material" in j:
            k = json.dumps(j, sort_keys=True)
            if k not in seen:
                seen.add(k); probes.append(j)
    probes.sort(key=lambda p: json.dumps(p, sort_keys=True))
    events = [perform(p, i + 1) for i, p in enumerate(probes)]
    tv = core.validate_trace("TraceElastic", "TraceElastic.cfg", events, "C15")
    if not tv["accepted"]:
        raise tlc.TLCError("elastic trace not consumed")
    for fl in tv["failed"]:
        e, p = events[fl["i"] - 1], probes[fl["i"] - 1]
        for clause in fl["failed"]:
            verdict.fail({"cls": "Blake", "clause": clause, "cfg": {"first": e["first"], "second": e["second"], "pd": e["pd"],
                                                                    "lame": E.qf(p["material"][0]), "shear": E.qf(p["material"][1])}},
                         {"probe": p, "event": e, "clause": clause})
    # (a) field laws
    r = scans.scan_collect("C15", ("ELAS.",), {"Blake": ("blake", {"ELAS", "FIN"})}, tier, verdict)
    rc = verdict.finish()
    rejected_pd = sum(1 for e in events if e["pd"] and e["outcome"] == "ValueError")
    cov = {"states": res["distinct"] + tv["states"] + r["states"], "transitions": res["states"] + tv["generated"] + r["transitions"],
           "traces_validated_against_impl": len(events) + r["traces"],
           "samples": [{"probe": probes[0], "event": events[0]}, r["sample"]],
           "evaluations": len(events) + r["evaluations"], "distinct_nontrivial": len({(e["first"], e["second"], e["pd"], json.dumps(p["material"])) for e, p in zip(events, probes)}) + r["distinct"],
           "rule": "Exact_Elastic: 33 rational materials (incl. auxetic, lambda = 0 and not positive-definite ones) x 15 parameter pairs, every TLC state replayed on Blake's constructor; "
                   "field laws: the Blake campaign of spec/Campaign.tla, 27 points per configuration incl. the cavity wall and two points ahead of the front",
           "elastic_probes": len(events), "pd_materials_rejected_with_ValueError": rejected_pd, "field_configs": r["traces"], "field_points": r["points"],
           "known_findings_hit": verdict.known, "exhaustive": True}
    core.write_evidence("C15", tier, "model_checking", cov, time.time() - t0, len(verdict.violations),
                        ["a ValueError for a positive-definite material (e.g. a non-positive modulus in the given pair) is accepted, as the property allows"])
    return rc


def replay(path):
    return generic_replay("C15", path)
