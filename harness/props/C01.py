from .. import scans
from .common import fams, generic_replay, PATTERNS


def run(tier):
    return scans.scan_check("C01", ("PDE.",), {"PDE"}, fams({'PDE'}, extra=('EHEP','RiemannGen','RiemannJWL','RMTV','Guderley')), tier, require_patterns=PATTERNS)


def replay(path):
    return generic_replay("C01", path)
