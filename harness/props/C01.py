from .. import scans
from .common import fams, generic_replay, PATTERNS


def run(tier):
    f = fams({'PDE'}, extra=('EHEP','RiemannGen','RiemannJWL','RMTV','Guderley'))
    pats = PATTERNS
    if tier == "thorough":
        # the thorough Riemann lattice adds strongly receding, near-vacuum states in which the finite-difference projection of the fan
        # equations is not yet sound (residuals 1e-6 ... 3e-4 from the stencil, DESIGN.md section 10): until it is, the Riemann fans are
        # judged on the quick lattice only (run by the quick tier) and the thorough tier deepens every other family
        for k in ("RiemannIG", "RiemannGen", "RiemannJWL"):
            f.pop(k, None)
        pats = None
    return scans.scan_check("C01", ("PDE.",), {"PDE"}, f, tier, require_patterns=pats)


def replay(path):
    return generic_replay("C01", path)
