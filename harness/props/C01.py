from .. import scans
from .common import CLOSED_HYDRO, generic_replay


def run(tier):
    return scans.scan_check("C01", ("PDE.",), {"PDE"}, dict(CLOSED_HYDRO), tier)


def replay(path):
    return generic_replay("C01", path)
