from .. import scans
from .common import fams, generic_replay, PATTERNS


def run(tier):
    f = fams({'ADM'}, only=['Noh'], extra=('EHEP','EPpiston','Mader','SDRZ','RiemannGen','RiemannJWL','RMTV','Guderley'))
    f["SuOlson"] = ("suolson", {"SUOL", "FIN"})        # 0 <= v <= u <= 1, monotone in x and t
    return scans.scan_check("C17", ("ADM.", "SUOL.v", "SUOL.u<=1", "SUOL.mono"), {"ADM"}, f, tier, require_patterns=PATTERNS)


def replay(path):
    return generic_replay("C17", path)
