from .. import scans
from .common import fams, generic_replay, PATTERNS


def run(tier):
    return scans.scan_check("C17", ("ADM.",), {"ADM"}, fams({'ADM'}, only=['Noh'], extra=('EHEP','EPpiston','Mader')), tier, require_patterns=PATTERNS)


def replay(path):
    return generic_replay("C17", path)
