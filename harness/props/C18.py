"""C18 - Su-Olson temperatures solve the non-equilibrium Marshak diffusion problem."""
from .. import scans
from .common import generic_replay


def run(tier):
    return scans.scan_check("C18", ("SUOL.", "FIN"), {"SUOL", "EOS", "FIN"}, {"SuOlson": ("suolson", {"SUOL", "EOS", "FIN"})}, tier)


def replay(path):
    return generic_replay("C18", path)
