"""C10 - self-similarity with the documented exponents."""
from .. import relcheck
from .common import generic_replay


def run(tier):
    return relcheck.rel_check("C10", ("SIM.",), ["Noh", "Cog19", "RiemannIG", "Mader", "Sedov", "EHEP", "Guderley"], ["Similar"], tier,
                              sample={"RiemannIG": (None, 30000)})      # thorough: 30 000 of the 218 000 closed-form Riemann pairs


def replay(path):
    return generic_replay("C10", path)
