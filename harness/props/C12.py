"""C12 - radiative shocks are steady travelling waves conserving total fluxes."""
from .. import scans
from .common import generic_replay


def run(tier):
    return scans.scan_check("C12", ("RAD.",), {"RAD", "EOS", "FIN"}, {"RadShock": ("radshock", {"RAD", "EOS", "FIN"})}, tier)


def replay(path):
    return generic_replay("C12", path)
