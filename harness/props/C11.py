"""C11 - Sedov: energy behind the shock = blast energy; mass conserved; ambient state ahead."""
from .. import scans
from .common import generic_replay


def run(tier):
    return scans.scan_check("C11", ("INT.", "AHEAD."), {"INT"}, {"Sedov": ("sedov", {"INT"})}, tier,
                            # every solution type and both special exponents (where the solver switches formulas) must have been exercised
                            require_patterns=[("standard", "none"), ("singular", "none"), ("vacuum", "none"), ("vacuum", "omega2"), ("standard", "omega3")])


def replay(path):
    return generic_replay("C11", path)
