"""C11 - Sedov: energy behind the shock = blast energy; mass conserved; ambient state ahead."""
from .. import scans
from .common import generic_replay


def run(tier):
    return scans.scan_check("C11", ("INT.", "AHEAD."), {"INT"}, {"Sedov": ("sedov", {"INT"})}, tier)


def replay(path):
    return generic_replay("C11", path)
