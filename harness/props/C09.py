"""C09 - mirror / Galilean symmetry of the Riemann solvers, rigid motions of the burn-time problems."""
from .. import relcheck
from .common import generic_replay


def run(tier):
    # both Riemann solvers: the general-EOS solver (seconds per solve) on a seeded sample of the same lattice
    return relcheck.rel_check("C09", ("SYM.",), ["RiemannIG", "RiemannGen", "Kenamond1", "Kenamond2", "Kenamond3", "DSDcyl"],
                              ["Mirror", "Boost", "Rigid"], tier, sample={"RiemannGen": 48, "RiemannIG": (None, 30000)})      # thorough: 30 000 of the 198 000 closed-form pairs


def replay(path):
    return generic_replay("C09", path)
