"""C09 - mirror / Galilean symmetry of the Riemann solvers, rigid motions of the burn-time problems."""
from .. import relcheck
from .common import generic_replay


def run(tier):
    return relcheck.rel_check("C09", ("SYM.",), ["RiemannIG", "Kenamond1", "Kenamond2", "Kenamond3", "DSDcyl"],
                              ["Mirror", "Boost", "Rigid"], tier)


def replay(path):
    return generic_replay("C09", path)
