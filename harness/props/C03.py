from .. import scans
from .common import fams, generic_replay, PATTERNS


def run(tier):
    return scans.scan_check("C03", ("EOS.",), {"EOS"}, fams({'EOS'}, extra=('EHEP','EPpiston','Mader','BBNoh','RiemannGen','RiemannJWL','RMTV','Guderley')), tier, require_patterns=PATTERNS)


def replay(path):
    return generic_replay("C03", path)
