"""C03 - thermodynamic fields returned together satisfy the declared EOS."""
from .. import scans
from .common import CLOSED_HYDRO, generic_replay


def run(tier):
    return scans.scan_check("C03", ("EOS.",), {"EOS"}, dict(CLOSED_HYDRO), tier)


def replay(path):
    return generic_replay("C03", path)
