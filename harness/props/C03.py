from .. import scans
from .common import fams, generic_replay, PATTERNS


def run(tier):
    f = fams({'EOS'}, extra=('EHEP','EPpiston','Mader','BBNoh','SDRZ','RiemannGen','RiemannJWL','RMTV','Guderley'))
    f["RadShock"] = ("radshock", {"EOS"})          # the thermodynamic fields returned by the public call
    return scans.scan_check("C03", ("EOS.",), {"EOS"}, f, tier, require_patterns=PATTERNS)


def replay(path):
    return generic_replay("C03", path)
