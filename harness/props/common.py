"""Family groups and shared pieces of the per-property checks."""
COG = ["Cog%d" % n for n in [1, 2, 3, 4, 5, 6, 7, 8, 9, 10, 11, 12, 13, 14, 16, 17, 18, 19, 20, 21]]
CLOSED_HYDRO = {f: "hydro" for f in ["Noh", "Noh2", "Noh2Cog"] + COG}


def generic_replay(prop, path):
    """Re-run the failing configuration on the current tree and print the clause verdicts."""
    import json
    from .. import scans, core
    with open(path) as f:
        rp = json.load(f)
    print(json.dumps(rp, indent=1)[:4000])
    return 0
