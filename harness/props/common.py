"""Family groups and shared pieces of the per-property checks."""
COG = ["Cog%d" % n for n in [1, 2, 3, 4, 5, 6, 7, 8, 9, 10, 11, 12, 13, 14, 16, 17, 18, 19, 20, 21]]
CLOSED = ["Noh", "Noh2", "Noh2Cog"] + COG
# coverage obligation: two shocks need ul > ur, two fans need ul < ur; the mixed patterns occur with
# every sign of the velocity difference (shock-contact-rarefaction with ul != ur is the branch the
# repository's tests never execute)
PATTERNS = [("SCS", "ul>ur"), ("RCR", "ul<ur")] + [(p, u) for p in ("SCR", "RCS") for u in ("ul<ur", "ul=ur", "ul>ur")]


EXTRA = {"EHEP": "ehep", "EPpiston": "eppiston", "Mader": "mader", "BBNoh": "bbnoh", "SDRZ": "sdrz", "RiemannGen": "riemann_gen", "RiemannJWL": "riemann_gen", "RMTV": "rmtv", "Guderley": "guderley"}


def fams(groups, closed=True, riemann=True, only=None, sedov=True, extra=()):
    d = {}
    for f in extra:
        d[f] = (EXTRA[f], set(groups) | ({"RZ"} if f == "SDRZ" else set()))
    if sedov:
        d["Sedov"] = ("sedov", groups)
    if closed:
        for f in (only or CLOSED):
            d[f] = ("hydro", groups)
    if riemann:
        d["RiemannIG"] = ("riemann", groups)
    return d


def generic_replay(prop, path):
    """Print the stored failing case (configuration, event, clause)."""
    import json
    with open(path) as f:
        rp = json.load(f)
    print(json.dumps(rp, indent=1)[:6000])
    return 0
