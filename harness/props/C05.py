"""C05 - uniform call/return contract.  TLC enumerates the behaviours of
spec/Session.tla (SessionGen); each behaviour is instantiated for every public
solver class found by introspection and replayed in a real interpreter; the
recorded events are validated by spec/TraceSession.tla."""
import json, multiprocessing as mp, os, time

from .. import core, tlc, registry, session
from .common import generic_replay


def two_calls_ok(beh):
    a, b = [op for op in beh if op["op"] == "Call"]
    return (a["container"] == b["container"] and a["n"] == b["n"] and a["n"] >= 3 and a["order"] != b["order"]
            and beh[0].get("mode") == "ok" and not any(op["op"] == "Dump" for op in beh))


def behaviours():
    res = tlc.must(tlc.run("SessionGen", "SessionGen.cfg", "C05gen", workers=1))
    seen, out = set(), []
    for j in res["json"]:
        if "behaviour" in j:
            # TLC evaluates invariants on states that the CONSTRAINT then discards: keep Shape behaviours only
            cnt = {o: sum(1 for op in j["behaviour"] if op["op"] == o) for o in ("Construct", "Call", "Dump")}
            if cnt["Construct"] > 1 or cnt["Dump"] > 1 or cnt["Call"] > 2 or (cnt["Call"] == 2 and not two_calls_ok(j["behaviour"])):
                continue
            k = json.dumps(j["behaviour"], sort_keys=True)
            if k not in seen:
                seen.add(k)
                out.append(j["behaviour"])
    out.sort(key=lambda b: json.dumps(b, sort_keys=True))
    return out, res


def select(behs, cost, tier):
    def calls(b):
        return [op for op in b if op["op"] == "Call"]
    if cost == "fast":
        return behs
    if cost == "slow":
        if tier == "thorough":
            return behs
        return [b for b in behs if not calls(b) or (calls(b)[0]["n"] <= 2 and calls(b)[0]["order"] in ("sorted", "reversed"))
                or (len(calls(b)) == 2 and calls(b)[0]["container"] == "ndarray" and calls(b)[0]["n"] == 7
                    and (calls(b)[0]["order"], calls(b)[1]["order"]) == ("sorted", "inner"))]
    # veryslow: constructor probes; in thorough one small call per container
    if tier == "thorough":
        return [b for b in behs if not calls(b) or (calls(b)[0]["n"] == 2 and calls(b)[0]["order"] == "reversed")]
    return [b for b in behs if not calls(b)]


QUICK_FILES = ["test_noh.py", "test_kenamond.py", "test_cog.py", "test_ehep.py", "test_sdrz.py", "test_heat.py", "test_blake.py",
               "test_mader.py", "test_dsd.py", "test_ep_piston.py"]


def suite_trace(tier):
    """code -> spec: the repository's own tests run under the recording plugin (harness/pytest_trace.py wraps the
    construction and the call of every solver at run time; nothing in the repository is edited); one behaviour per test"""
    import glob, subprocess, sys, exactpack
    root = os.path.dirname(os.path.dirname(os.path.abspath(exactpack.__file__)))
    tdir = os.path.join(root, "exactpack", "tests")
    out = tlc.workdir("C05suite")
    for f in glob.glob(os.path.join(out, "tr.*")):
        os.unlink(f)
    files = [tdir] if tier == "thorough" else [os.path.join(tdir, f) for f in QUICK_FILES if os.path.exists(os.path.join(tdir, f))]
    env = dict(os.environ, VERIF_TRACE_OUT=os.path.join(out, "tr"), MPLBACKEND="Agg",
               PYTHONPATH=os.pathsep.join([os.path.dirname(os.path.dirname(os.path.dirname(os.path.abspath(__file__)))), root]))
    cmd = [sys.executable, "-m", "pytest", "-q", "-p", "no:cacheprovider", "-p", "harness.pytest_trace", ] + \
          (["-n", "12"] if tier == "thorough" else []) + files
    r = subprocess.run(cmd, cwd=root, env=env, capture_output=True, text=True, timeout=3600)
    if r.returncode not in (0, 1):
        raise RuntimeError("recording run of the repository's tests failed (%d): %s" % (r.returncode, (r.stdout + r.stderr)[-800:]))
    ev, base = [], 0
    for f in sorted(glob.glob(os.path.join(out, "tr.*"))):
        e = json.load(open(f))
        for x in e:
            x["tid"] += base
        base = max(x["tid"] for x in e) + 1
        ev += e
    return ev, r.stdout.strip().splitlines()[-1] if r.stdout.strip() else ""


def run(tier):
    t0 = time.time()
    verdict = core.Verdict("C05")
    behs, gres = behaviours()
    reg = registry.registry()
    os.environ["VERIF_TMP"] = tlc.workdir("C05tmp")
    # the very slow heat solver counts as veryslow for the session replay
    jobs = []
    for i, (name, sp) in enumerate(reg.items()):
        cost = sp.cost
        if name.endswith("CylindricalSandwich"):
            cost = "veryslow"
        jobs.append((name, select(behs, cost, tier), (i + 1) * 1000, core.seed()))
    ctx = mp.get_context("fork")
    with ctx.Pool(min(16, os.cpu_count() or 4)) as pool:
        results = pool.map(session._worker, sorted(jobs, key=lambda j: -len(j[1])), chunksize=1)
    events, crashed = [], []
    for name, ev, err in results:
        if err:
            crashed.append((name, err))
        events += ev
    if crashed:
        raise RuntimeError("replay crashed for %s: %s" % (crashed[0][0], crashed[0][1]))
    # a synthetic solver class without a default: the base-class check itself
    from exactpack.base import ExactSolver
    class _Probe(ExactSolver):
        parameters = {"needed": "a parameter without default"}
        def _run(self, r, t):
            raise NotImplementedError
    for mode, kw in (("missing", {}), ("unknown", {"needed": 1.0, "bogus": 2.0})):
        try:
            _Probe(**kw); oc = "ok"
        except Exception as ex:
            oc = type(ex).__name__
        events.append({"tid": 1, "op": "Construct", "obj": 1, "cls": "harness._Probe", "mode": mode, "outcome": oc})
        events.append({"tid": 1, "op": "Reset", "obj": 0, "cls": "harness._Probe"})
    # whole-number positions as an integer array (one behaviour per class)
    nint = 0
    for i, name in enumerate(reg):
        e_ = session.integer_positions(name, 900000 + i)
        nint += bool(e_)
        events += e_
    tv = core.validate_trace("TraceSession", "TraceSession.cfg", events, "C05")
    if not tv["accepted"]:
        consumed = tv["depth"] - 1
        bad = events[consumed] if 0 <= consumed < len(events) else None
        verdict.fail({"cls": bad["cls"] if bad else "?", "clause": "API.reject", "cfg": {}}, {"reject_at": consumed, "event": bad})
    for fl in tv["failed"]:
        e = events[fl["i"] - 1]
        for clause in fl["failed"]:
            verdict.fail({"cls": e["cls"], "clause": clause,
                          "cfg": {k: e.get(k) for k in ("container", "n", "order", "mode")}},
                         {"event": e, "clause": clause})
    # ---- the repository's own tests as recorded behaviours
    sev, summary = suite_trace(tier)
    if not sev:
        raise RuntimeError("the recording plugin produced no events")
    stv = core.validate_trace("TraceSession", "TraceSession.cfg", sev, "C05suite")
    if not stv["accepted"]:
        consumed = stv["depth"] - 1
        bad = sev[consumed] if 0 <= consumed < len(sev) else None
        verdict.fail({"cls": bad["cls"] if bad else "?", "clause": "API.reject", "cfg": {"source": "suite"}}, {"reject_at": consumed, "event": bad})
    for fl in stv["failed"]:
        e = sev[fl["i"] - 1]
        for clause in fl["failed"]:
            verdict.fail({"cls": e["cls"], "clause": clause, "cfg": {"source": "suite", "container": e.get("container"), "n": e.get("n")}},
                         {"event": e, "clause": clause, "source": "repository test-suite"})
    rc = verdict.finish()
    calls = [e for e in events if e["op"] == "Call"]
    nontriv = {(e["cls"], e["op"], e.get("container"), e.get("n"), e.get("order"), e.get("mode")) for e in events if e["op"] != "Reset"}
    cov = {"states": gres["distinct"] + tv["states"], "transitions": gres["states"] + tv["generated"],
           "traces_validated_against_impl": len({e["tid"] for e in events}) + len({e["tid"] for e in sev}),
           "suite": {"tests_with_solver_events": len({e["tid"] for e in sev}), "constructions": sum(1 for e in sev if e["op"] == "Construct"),
                     "calls": sum(1 for e in sev if e["op"] == "Call"), "classes_called": len({e["cls"] for e in sev if e["op"] == "Call"}),
                     "pytest_summary": summary[:200]},
           "samples": [{"behaviour": behs[len(behs) // 2], "events": [e for e in events if e["op"] != "Reset"][:3]}],
           "evaluations": len([e for e in events if e["op"] != "Reset"]),
           "distinct_nontrivial": len(nontriv),
           "rule": "behaviours of spec/Session.tla (one object, <=3 operations; 3 containers x request sizes {1,2,3,7} x 4 orders; "
                   "constructor probes ok / unknown parameter / missing value) enumerated exhaustively by TLC and instantiated for every "
                   "public solver class found by introspection; slow classes replay a subset in quick tier; distinct = (class, operation, variant)",
           "classes": len(reg), "classes_with_integer_request": nint, "classes_called": len({e["cls"] for e in calls}),
           "behaviour_shapes": len(behs), "known_findings_hit": verdict.known, "exhaustive": tier == "thorough"}
    core.write_evidence("C05", tier, "model_checking", cov, time.time() - t0, len(verdict.violations),
                        ["CSV read-back uses Python's csv.reader and float(); 'same as ndarray' compares with a fresh object of the same class"])
    return rc


def replay(path):
    return generic_replay("C05", path)
