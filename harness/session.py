"""Replay of Session behaviours (TLC-generated operation sequences) into a real
interpreter, recording one event per operation with the abstracted reply.
Used by C05 (API contract)."""
import contextlib
import csv
import io
import json
import os
import random
import tempfile
import warnings

import numpy as np

from . import registry

POSDIM = {"1d": 1, "N2": 2, "N3": 3, "2N": 2}


def order_points(pts, order, rng):
    pts = list(pts)
    if order == "sorted":
        return pts
    if order == "reversed":
        return pts[::-1]
    if order == "shuffled":
        p = pts[:]
        rng.shuffle(p)
        if p == pts and len(p) > 1:
            p = p[1:] + p[:1]
        return p
    if order == "inner":          # first and last point kept, the points in between in reverse order
        return pts[:1] + pts[1:-1][::-1] + pts[-1:] if len(pts) > 3 else pts[:1] + pts[1:][::-1]
    if order == "dup":             # one point twice; the largest position stays in the request (some solvers size their domain by it)
        if len(pts) >= 3:
            return pts[:-2] + [pts[0]] + pts[-1:]
        return pts[-1:] * 2 if len(pts) > 1 else pts
    raise ValueError(order)


def to_container(sp, pts, container):
    """points (list of floats / tuples) -> the container the user passes"""
    if sp.shape == "2N":
        cols = list(zip(*pts))
        if container == "ndarray":
            return np.array(cols, dtype=float)
        if container == "list":
            return [list(c) for c in cols]
        return tuple(tuple(c) for c in cols)
    if container == "ndarray":
        return np.array(pts, dtype=float)
    if container == "list":
        return list(pts)
    return tuple(pts)


def coords_of(sp, pts):
    a = np.array(pts, dtype=float)
    if a.ndim == 1:
        return [a]
    return [a[:, j] for j in range(a.shape[1])]


def same_solution(a, b):
    if a.dtype.names != b.dtype.names or len(a) != len(b):
        return False
    for n in a.dtype.names:
        x, y = np.asarray(a[n]), np.asarray(b[n])
        if x.dtype.kind in "fc":
            if not np.array_equal(x, y, equal_nan=True):
                return False
        elif not np.array_equal(x, y):
            return False
    return True


def call_quiet(solver, arg, t):
    with warnings.catch_warnings():
        warnings.simplefilter("ignore")
        with np.errstate(all="ignore"), contextlib.redirect_stdout(io.StringIO()):
            return solver(arg, t)


def replay_class(name, behaviours, tid0, seed):
    """replay every behaviour for one class; returns list of events"""
    reg = registry.registry()
    sp = reg[name]
    rng = random.Random(seed * 7919 + hash(name) % 100003)
    events = []
    tid = tid0
    cls = sp.cls
    required = [p for p in cls.parameters if not hasattr(cls, p)]
    for beh in behaviours:
        tid += 1
        objs, last, built_mode = {}, {}, {}
        skip = False
        out = []
        for op in beh:
            ev = {"tid": tid, "op": op["op"], "obj": op["obj"], "cls": name}
            if op["op"] == "Construct":
                ev["mode"] = op["mode"]
                kwargs = dict(sp.kwargs)
                args = sp.args() if callable(sp.args) else sp.args
                if op["mode"] in ("ok2", "unknown2") and not sp.constructible:
                    skip = True         # no valid parameter set exists for this class (documented)
                    break
                if op["mode"] == "ok2":
                    if not sp.alt:
                        skip = True     # no second parameter set registered for this class
                        break
                    kwargs.update(sp.alt)
                elif op["mode"] == "unknown":
                    kwargs["no_such_parameter_xyz"] = 1.0
                elif op["mode"] == "unknown2":
                    if not sp.alt:
                        skip = True
                        break
                    kwargs.update(sp.alt)
                    kwargs["no_such_parameter_xyz"] = 1.0
                elif op["mode"] == "unpublished":
                    inherited = [(p, b) for b in cls.__mro__[1:] for p in getattr(b, "parameters", {})
                                 if p not in cls.parameters and p not in kwargs]
                    if not inherited:
                        skip = True     # this class publishes everything its parents publish
                        break
                    pname, parent = inherited[0]
                    kwargs[pname] = getattr(parent, pname, 1.0)
                elif op["mode"] == "missing":
                    drop = [p for p in required if p in kwargs]
                    if not drop:
                        skip = True     # every parameter of this class has a default: not applicable
                        break
                    for p in drop:
                        del kwargs[p]
                elif not sp.constructible:
                    skip = True
                    break
                try:
                    with contextlib.redirect_stdout(io.StringIO()):
                        o = cls(*args, **kwargs)
                        if op["mode"] in ("ok", "ok2") and sp.after:
                            sp.after(o)
                    ev["outcome"] = "ok"
                    objs[op["obj"]] = o
                    built_mode[op["obj"]] = op["mode"]
                except Exception as ex:
                    ev["outcome"] = type(ex).__name__
            elif op["op"] == "Call":
                n = max(op["n"], 1)
                if n < sp.min_n or (sp.sorted_only and op["order"] != "sorted"):
                    skip = True          # documented restriction of this class on the request
                    break
                base = sp.request(n)
                pts = order_points(base, op["order"], rng)
                arg = to_container(sp, pts, op["container"])
                before = arg.copy() if isinstance(arg, np.ndarray) else json.dumps(arg)
                ev.update({"container": op["container"], "n": n, "order": op["order"]})
                try:
                    sol = call_quiet(objs[op["obj"]], arg, sp.t)
                    ev["outcome"] = "ok"
                except Exception as ex:
                    ev["outcome"] = type(ex).__name__
                    ev.update({"len": 0, "echo": False, "pos_first": False, "names": [],
                               "input_unchanged": True, "same_as_array": True})
                    out.append(ev)
                    continue
                names = list(sol.dtype.names)
                ev["len"] = int(len(sol))
                ev["names"] = names
                cs = coords_of(sp, pts)
                d = len(cs)
                def eq(field, c):
                    f = np.asarray(sol[field])
                    return f.dtype.kind == "f" and f.shape == c.shape and np.array_equal(f, c)
                ev["pos_first"] = bool(len(names) >= d and all(eq(names[j], cs[j]) for j in range(d)))
                ev["echo"] = bool(ev["pos_first"] or all(any(eq(nm, c) for nm in names) for c in cs))
                after_ok = np.array_equal(before, arg) if isinstance(arg, np.ndarray) else (before == json.dumps(arg))
                noalias = True
                if isinstance(arg, np.ndarray):
                    noalias = not any(np.shares_memory(np.asarray(sol[nm]), arg) for nm in names)
                ev["input_unchanged"] = bool(after_ok and noalias)
                # same request as ndarray on a fresh object of the same class (history effects are C06)
                try:
                    with contextlib.redirect_stdout(io.StringIO()):
                        ref_obj = sp.build(alt=(built_mode.get(op["obj"]) == "ok2"))
                    ref = call_quiet(ref_obj, to_container(sp, pts, "ndarray"), sp.t)
                    ev["same_as_array"] = bool(same_solution(sol, ref))
                except Exception:
                    ev["same_as_array"] = False
                last[op["obj"]] = sol
            elif op["op"] == "Dump":
                sol = last.get(op["obj"])
                if sol is None:
                    if any(e["op"] == "Call" and e["outcome"] != "ok" for e in out):
                        break            # the Call raised (reported as such): there is nothing to dump
                    skip = True
                    break
                fd, path = tempfile.mkstemp(suffix=".csv", dir=os.environ.get("VERIF_TMP"))
                os.close(fd)
                try:
                    sol.dump(path)
                    with open(path, newline="") as f:
                        rows = list(csv.reader(f))
                    ev["outcome"] = "ok"
                    hdr, body = rows[0], rows[1:]
                    ev["csv_rows"] = bool(hdr == list(sol.dtype.names) and len(body) == len(sol))
                    exact = ev["csv_rows"]
                    if exact:
                        for i, row in enumerate(body):
                            for nm, cell in zip(sol.dtype.names, row):
                                v = sol[nm][i]
                                if np.asarray(v).dtype.kind == "f":
                                    x = float(cell)
                                    if not (x == float(v) or (x != x and float(v) != float(v))):
                                        exact = False
                                elif str(v) != cell:
                                    exact = False
                    ev["csv_exact"] = bool(exact)
                except Exception as ex:
                    ev["outcome"] = type(ex).__name__
                    ev["csv_rows"] = ev["csv_exact"] = False
                finally:
                    os.unlink(path)
            out.append(ev)
        if skip:
            tid -= 1
            continue
        events += out
        events.append({"tid": tid, "op": "Reset", "obj": 0, "cls": name})
    return events, tid


WHOLE = {"1d": [1.0, 2.0, 3.0], "N2": [(1.0, 1.0), (2.0, 1.0), (3.0, 2.0)], "N3": [(1.0, 1.0, 0.0), (2.0, 1.0, 1.0), (3.0, 2.0, 1.0)],
         "2N": [(1.0, 1.0), (2.0, 1.0), (3.0, 2.0)]}


def integer_positions(name, tid):
    """whole-number positions as an integer array against the same positions as a float array (an array input is an array
    input); classes for which 1, 2, 3 is not a valid request with finite values are not judged"""
    reg = registry.registry()
    sp = reg[name]
    if not sp.constructible or sp.cost == "veryslow" or sp.min_n > 3:
        return []
    a = to_container(sp, WHOLE[sp.shape], "ndarray")
    try:
        with contextlib.redirect_stdout(io.StringIO()):
            sf = call_quiet(sp.build(), a, sp.t)
        if not all(np.all(np.isfinite(np.asarray(sf[n]))) for n in sf.dtype.names if np.asarray(sf[n]).dtype.kind == "f"):
            return []
    except Exception:
        return []
    ev = [{"tid": tid, "op": "Construct", "obj": 1, "cls": name, "mode": "ok", "outcome": "ok"},
          {"tid": tid, "op": "Call", "obj": 1, "cls": name, "container": "ndarray of integers", "n": 3, "order": "sorted"}]
    c = ev[1]
    try:
        ai = a.astype(int)
        with contextlib.redirect_stdout(io.StringIO()):
            si = call_quiet(sp.build(), ai, sp.t)
        names = list(si.dtype.names)
        same = names == list(sf.dtype.names) and all(
            np.allclose(np.asarray(sf[n], float), np.asarray(si[n], float), rtol=1e-12, atol=0.0, equal_nan=True)
            for n in names if np.asarray(sf[n]).dtype.kind in "fi")
        cs = coords_of(sp, WHOLE[sp.shape]) if sp.shape != "2N" else [np.array(c_, float) for c_ in zip(*WHOLE[sp.shape])]
        def eq(field, col):
            f = np.asarray(si[field], float)
            return f.shape == col.shape and np.array_equal(f, col)
        pos_first = len(names) >= len(cs) and all(eq(names[j], cs[j]) for j in range(len(cs)))
        c.update({"outcome": "ok", "len": int(len(si)), "names": names, "pos_first": bool(pos_first), "echo": bool(pos_first),
                  "input_unchanged": bool(np.array_equal(ai, a.astype(int))), "same_as_array": bool(same)})
    except Exception as ex:
        c.update({"outcome": type(ex).__name__, "len": 0, "echo": False, "pos_first": False, "names": [], "input_unchanged": True, "same_as_array": True})
    ev.append({"tid": tid, "op": "Reset", "obj": 0, "cls": name})
    return ev


def _worker(args):
    name, behaviours, tid0, seed = args
    try:
        ev, tid = replay_class(name, behaviours, tid0, seed)
        return name, ev, None
    except Exception as ex:
        import traceback
        return name, [], "%s: %s\n%s" % (type(ex).__name__, ex, traceback.format_exc()[-1500:])
