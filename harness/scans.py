"""Scan-based checks (Tier B): TLC enumerates a campaign, drivers record scans
of the real solver, TLC validates the scans against Profile/Laws."""
import json, multiprocessing as mp, os, time, traceback

from . import core, tlc, encode as E


def _scan_one(args):
    drv, state, groups, tid = args
    try:
        import importlib
        from . import bystander
        bystander.install()
        mod = importlib.import_module("harness.drivers." + drv)
        ev, st = mod.scan(state, groups, tid)
        return tid, ev, st, None
    except Exception as ex:  # constructor or call raised: recorded, judged by the caller
        return tid, None, None, "%s: %s" % (type(ex).__name__, ex) + "\n" + traceback.format_exc()[-1500:]


HEAVY = {"CylSandwich", "Guderley", "RiemannGen", "RiemannJWL", "RMTV", "Sedov", "SDRZ", "RadShock"}


def run_scans(jobs, procs=None):
    """jobs: list of (driver module name, state, groups, tid)"""
    procs = procs or min(16, os.cpu_count() or 4)
    # import the drivers (and through them the solver packages) before forking
    import importlib
    for drv in sorted({j[0] for j in jobs}):
        m = importlib.import_module("harness.drivers." + drv)
        if hasattr(m, "preload"):
            m.preload()
    if len(jobs) <= 2:
        return [_scan_one(j) for j in jobs]
    ctx = mp.get_context("fork")
    # expensive families first and one by one, the rest in chunks
    heavy = [j for j in jobs if j[1].get("fam", j[1].get("st", {}).get("fam")) in HEAVY]
    light = [j for j in jobs if j not in heavy]
    with ctx.Pool(procs) as pool:
        hres = [pool.apply_async(_scan_one, (j,)) for j in heavy]
        lres = pool.map_async(_scan_one, light, chunksize=max(1, len(light) // (procs * 8))) if light else None
        out = [r.get() for r in hres] + (lres.get() if lres else [])
    order = {id(j): i for i, j in enumerate(jobs)}
    back = {j[3]: i for i, j in enumerate(jobs)}
    return sorted(out, key=lambda r: back.get(r[0], 0))


def cfg_key(state):
    d = {"geometry": state.get("geometry"), "t": E.qf(state["t"]) if "t" in state else None}
    def val(v):
        if isinstance(v, (int, str)):
            return v
        if isinstance(v, list) and len(v) == 2 and all(isinstance(x, int) for x in v):
            return v[0] / v[1]
        if isinstance(v, list):
            return [val(x) for x in v]
        return v
    for k, v in state.get("par", {}).items():
        d[k] = val(v)
    return d


SAMPLE_QUICK = {"RiemannGen": 96}      # expensive families: a seeded sample of the enumerated campaign in the quick tier
# thorough tier: the Riemann lattice has 36 450 states x 2 times; the general-EOS solver (3 s per solve) gets a seeded sample of 1 200, the
# closed-form solver one of 12 000 (the whole lattice is 1.5 h per property, most of it trace validation of 4 million events)
SAMPLE_THOROUGH = {"RiemannGen": 1200, "RiemannIG": 12000}


def scan_collect(prop, prefixes, camp_driver, tier, verdict, module="Campaign", require_patterns=None, groups=None):
    """Run the scan campaigns, validate the traces, feed failed clauses of this property into
    `verdict`; returns the statistics for the evidence file."""
    states, cres = core.enumerate_campaign(sorted(camp_driver), tier, prop, module=module)
    empty = sorted(set(camp_driver) - {s["fam"] for s in states})
    if empty:       # a family whose every configuration is excluded (Campaign.Defined) would be claimed without being exercised
        raise RuntimeError("coverage obligation not met, no configuration of: %s" % ", ".join(empty))
    if True:
        import random
        rng = random.Random(core.seed() + 23)
        keep = []
        sampled = {}
        cap = SAMPLE_QUICK if tier == "quick" else SAMPLE_THOROUGH
        for fam in sorted({s["fam"] for s in states}):
            lst = [s for s in states if s["fam"] == fam]
            if fam in cap and len(lst) > cap[fam]:
                sampled[fam] = "%d of %d enumerated configurations (seeded sample)" % (cap[fam], len(lst))
                lst = rng.sample(lst, cap[fam])
            keep += lst
        states = keep

    def drv(f):
        d = camp_driver[f]
        return d if isinstance(d, tuple) else (d, groups)
    jobs = [(drv(s["fam"])[0], s, set(drv(s["fam"])[1]), i + 1) for i, s in enumerate(states)]
    results = run_scans(jobs)
    events, by_tid, errors = [], {}, []
    npts = nj = evals = 0
    patterns = {}
    for tid, ev, st, err in results:
        by_tid[tid] = states[tid - 1]
        if err is not None:
            errors.append((tid, err))
            continue
        events += ev
        npts += st["points"]; nj += st["jumps"]; evals += st["evals"]
        if st.get("pattern"):
            k = (states[tid - 1]["fam"], st["pattern"], st.get("uclass", ""))
            patterns[k] = patterns.get(k, 0) + 1
    fin = any(p.startswith("FIN") for p in prefixes)
    for tid, err in errors:
        s = by_tid[tid]
        # the Riemann solvers reject star states outside their bracketing interval [0, 10 max(pl, pr)]
        # (and vacuum) with a ValueError: a loud rejection, which C20 allows
        # data that generate a vacuum between the fans are announced ("the solution for this problem is not ready") and
        # then die with NameError: name 'R' is not defined - ugly, but loud as well
        loud = s["fam"].startswith("Riemann") and (err.startswith("ValueError") or err.startswith("NameError: name 'R'"))
        if fin and not loud:
            verdict.fail({"cls": s["fam"], "clause": "FIN.raised", "cfg": dict(cfg_key(s), error_type=err.split(":")[0].strip())}, {"state": s, "error": err})
    if errors and not fin:
        print("# note: %d configurations raised (judged by C20): e.g. %s" % (len(errors), errors[0][1].splitlines()[0]))
    tv = core.validate_trace("TraceScan", "TraceScan.cfg", events, prop, boundary=lambda e: e.get("k") == "End")
    if not tv["accepted"]:
        consumed = tv["depth"] - 1
        bad = events[consumed] if 0 <= consumed < len(events) else None
        verdict.fail({"cls": by_tid[bad["tid"]]["fam"] if bad else "?", "clause": "GRAM.reject", "cfg": {}},
                     {"reject_at": consumed, "event": bad})
    clause_hits = 0
    for fl in tv["failed"]:
        s = by_tid[fl["tid"]]
        e = events[fl["i"] - 1]
        for clause in fl["failed"]:
            if not any(clause.startswith(p) for p in prefixes) and not clause.startswith(("GRAM.", "CFG.")):
                continue
            clause_hits += 1
            verdict.fail({"cls": s["fam"], "clause": clause, "region": e.get("reg"), "cfg": cfg_key(s)},
                         {"state": s, "event": e, "clause": clause})
    nontrivial = set()
    for e in events:
        if e["k"] == "Pt" and e["fin"]:
            s = by_tid[e["tid"]]
            nontrivial.add((s["fam"], s["geometry"], e["reg"], json.dumps(s["par"], sort_keys=True)))
        elif e["k"] in ("Jump", "Int"):
            s = by_tid[e["tid"]]
            nontrivial.add((s["fam"], s["geometry"], e["k"], json.dumps(s["par"], sort_keys=True)))
    if require_patterns:
        have = {(k[1], k[2]) for k in patterns}
        missing = [p_ for p_ in require_patterns if p_ not in have]
        if missing and not verdict.violations:
            # (when the code under test is broken the patterns may be unrecognisable: the violations are the verdict then)
            raise RuntimeError("coverage obligation not met, patterns never exercised: %r" % (missing,))
    sample = [ev for ev in events[:400] if ev["k"] in ("Cfg", "Pt", "Jump")][:3]
    return {"states": cres["distinct"] + tv["states"], "transitions": cres["states"] + tv["generated"],
            "traces": len(states) - len(errors), "evaluations": evals, "distinct": len(nontrivial), "points": npts,
            "jumps": nj, "events": len(events), "raised": len(errors), "clause_hits": clause_hits, "patterns": patterns,
            "campaign_states": len(states), "sampled": sampled, "sample": {"campaign_state": states[0] if states else None, "events": sample},
            "families": sorted(camp_driver)}


def scan_check(prop, prefixes, groups, camp_driver, tier, level="model_checking",
               rule=None, assumptions=None, module="Campaign", require_patterns=None):
    """camp_driver: dict campaign/family name -> driver module name (or (driver, groups))."""
    t0 = time.time()
    verdict = core.Verdict(prop)
    r = scan_collect(prop, prefixes, camp_driver, tier, verdict, module, require_patterns, groups)
    rc = verdict.finish()
    cov = {"states": r["states"], "transitions": r["transitions"], "traces_validated_against_impl": r["traces"],
           "samples": [r["sample"]], "evaluations": r["evaluations"], "distinct_nontrivial": r["distinct"],
           "rule": rule or ("configurations enumerated exhaustively by TLC from spec/Campaign.tla (tier constants); "
                            "one scan trace per configuration validated by spec/TraceScan.tla; a case is non-trivial "
                            "when a finite point of a region (or a located jump / an integral budget) carried operands for this property's laws; "
                            "distinct = (family, parameter set, geometry, region)"),
           "campaign_states": r["campaign_states"], "scan_points": r["points"], "jumps_located": r["jumps"],
           "trace_events": r["events"], "solver_raised": r["raised"], "failed_clauses_this_property": r["clause_hits"],
           "known_findings_hit": verdict.known, "exhaustive": not r["sampled"], "sampled_families": r["sampled"],
           "wave_patterns_covered": {"%s/%s/%s" % k: v for k, v in sorted(r["patterns"].items())},
           "families": r["families"]}
    core.write_evidence(prop, tier, level, cov, time.time() - t0, len(verdict.violations), assumptions)
    return rc
