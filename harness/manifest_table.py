"""property id -> (category, text, note, technique, design_ref); only built checks are claimed"""
CHECKS = {}
PENDING = {}


def claim(pid, category, text, note, technique, ref):
    CHECKS[pid] = (category, text, note, technique, ref)


def pending(pid, reason):
    PENDING[pid] = reason


MEAS = ("Trusted base: TLC; the Python projection (harness/measure.py, harness/drivers) that calls the public solver API, "
        "takes finite differences / locates discontinuities and plateaus from the returned fields and encodes the measured operands as integers; "
        "tolerances in spec/Laws.tla (resolution classes). The real arithmetic of the solver is not modelled in TLA+; "
        "the quantifier is the finite campaign of spec/Campaign.tla (exhaustively enumerated), not all reals.")
TECH = "TLA+ trace validation (TLC) of measured scans over a TLC-enumerated campaign"


def scan_text(what):
    return ("TLC enumerates the whole parameter campaign of spec/Campaign.tla (every family x geometry x gamma x coefficient / "
            "left-right state lattice of the tier) and validates, for each configuration, the scan trace recorded from the real "
            "solver against the scan machine spec/Profile.tla + TraceScan.tla: " + what +
            " Verdicts are total (failed clauses are reported with their names, the trace is always consumed to its end); "
            "coverage obligations (all four Riemann wave patterns with every sign of the velocity difference) are enforced.")


claim("C01", "model_checking", scan_text(
      "at every smooth point the term vectors of the documented mass / momentum / energy equations (term lists and counts owned by "
      "spec/Catalogue.tla, incl. the Coggeshall heat-flux term in its three conduction kinds), measured by 4th-order differences of the "
      "public call in r and t, must balance. Families: Noh, Noh2, Coggeshall 1-21, Sedov (3 solution types), both 1-D Riemann solvers (JWL included), EHEP, black-box Noh, "
      "RMTV (incl. the conduction term; the clock is the heat-front position) and Guderley (gamma = 2, 3, 4; balances in the accepted time and in the similarity solution's own time)."), MEAS, TECH, "DESIGN.md 9 C01")
claim("C02", "model_checking", scan_text(
      "every discontinuity located from the returned fields (bisection / m-ary search) must satisfy mass, momentum and energy flux balance "
      "in the frame moving with the speed implied by its located positions at t -/+ dt; contacts carry equal p, u and move with the fluid; "
      "the sequence of regions and waves must be a word of the family's region grammar. Also the RMTV isothermal shock (mass, momentum, continuous temperature, documented position, cold state ahead) "
      "and the Guderley converging and reflected shocks."), MEAS, TECH, "DESIGN.md 9 C02")
claim("C03", "model_checking", scan_text(
      "on every returned point the EOS declared in spec/Catalogue.tla is evaluated by TLC itself in sign/log integer arithmetic "
      "(gamma law with the gamma of the point's side of the contact, Coggeshall pair p=Gamma rho T, e=Gamma T/(gamma-1))."), MEAS, TECH, "DESIGN.md 9 C03")
claim("C04", "model_checking", scan_text(
      "the integrals of density, momentum and total energy of the returned Riemann solution over a window containing all waves "
      "(piecewise Gauss-Legendre between wave positions found from the fields) must equal initial content plus t times the flux difference."),
      MEAS, TECH, "DESIGN.md 9 C04")
claim("C17", "model_checking", scan_text(
      "positivity of density / pressure / energy on every point, compressive shocks (pressure and density rise in the direction the material "
      "crosses), monotone variation inside rarefaction fans (action property on consecutive fan points), and all values between the constant states."),
      MEAS, TECH, "DESIGN.md 9 C17")

claim("C05", "model_checking",
      "TLC enumerates every behaviour of the API-contract state machine spec/Session.tla (constructor probes ok / unknown parameter / missing value; "
      "Call with 3 containers x 4 request sizes x 5 orders, also two calls of one object in two different orders; an unknown name next to a second valid parameter set; CSV dump and read-back) with the invariants of the model; each behaviour is instantiated "
      "for every public solver class found by introspection (120 today, new classes are picked up automatically) and replayed in a real interpreter; "
      "the recorded operation events are validated against the specification by spec/TraceSession.tla (enabledness of each operation + the contract "
      "clauses: record count, positions echoed in order and first, standard names, input not modified or aliased, container equivalence, exact CSV round trip). "
      "Code -> spec: a pytest plugin living in /verif (harness/pytest_trace.py; run-time wrappers, nothing in /repo is edited) records every construction and call made by the "
      "repository's OWN tests, one behaviour per test, and the same TraceSession validates them (quick: ten test files; thorough: the whole suite).",
      "Trusted base: TLC; harness/session.py (replay, abstraction of the reply) and harness/registry.py (a valid request per class); Python's csv/float for the read-back. "
      "Slow classes replay a subset of the behaviours in the quick tier; RateStick/ExplosiveArc/Sn/CylindricalSandwich are only constructed in quick.",
      "TLC behaviour enumeration of Session.tla replayed into the real classes + TLA+ trace validation", "DESIGN.md 9 C05")

claim("C06", "model_checking",
      "spec/Interp.tla models where the library keeps state between operations (module globals written before they are read, per-call attribute "
      "overwrite, eager profiles, black-box Noh's cached Newton solution / solver tolerance / initial-conditions dictionary); TLC checks the invariant "
      "HistoryIndependent over ALL interleavings of Construct/SetTol/Solve/Call on 2 objects (depth in the cfg; the pre-fix variant SharedSolver=TRUE gives "
      "the 3-step counterexample). TLC then generates behaviours over the concrete stateful classes (3 objects, 2 parameter sets, 5 request variants, 2 times); "
      "each behaviour and each oracle runs in its own process forked from a pristine parent, every call is compared with the same operations on that one object "
      "executed first in a fresh process, and the recorded events are validated against Interp by spec/TraceInterp.tla (history tolerance 1e-9 relative, batch "
      "tolerance 1e-6, or the documented resolution for grid-dependent solvers). A batch-independence sweep (shuffled request with a duplicate and documented edge "
      "points vs one-point requests) covers every constructible class in both parameter sets. spec/InterpDefects.tla names six ways of leaking state as alternative actions; "
      "on every run TLC shows that each is visible, that one of the replayed templates (InterpPlans) exposes it, and which of them the bystander of the law checks exposes.",
      "Trusted base: TLC; harness/interp.py; a forked child of a parent that only imported exactpack counts as a fresh interpreter; verdicts come from returned values only "
      "(never from module internals). Behaviours are a seeded sample (VERIF_SEED), not exhaustive; Sn / RateStick / ExplosiveArc are not replayed; Guderley is replayed with gamma = 3 and 2 (seconds per call; minutes for 1.4).",
      "TLC model checking of Interp.tla + TLC-generated behaviours replayed with a fresh-process oracle + TLA+ trace validation", "DESIGN.md 9 C06")

claim("C20", "model_checking",
      "spec/Validation.tla holds the catalogue of documented restrictions (parameter ranges, admissible geometry sets, time domains; DESIGN.md B.1); TLC enumerates every "
      "probe below / at / above each bound and computes in exact rationals whether it violates ANY restriction on that parameter (ASSUME Covered: each restriction has a "
      "violating and an admissible probe); every probe is performed on the real class and spec/TraceValidation.tla compares the outcome (ValueError at construction iff "
      "violated; raise or all-NaN outside the time domain, finite inside). NoGarbage: the FIN clause of spec/Profile.tla on every point of every admissible configuration "
      "of the scan campaigns (a solver that raises or returns NaN/inf for an admissible configuration is reported).",
      "Trusted base: TLC; the catalogue is my reading of docstrings / parameter help / error messages (an undocumented restriction is not demanded; Kenamond2 D1 = D2 is admitted because "
      "the repository's own tests use it); harness/props/C20.py performs the probes from each class's default parameters.",
      "TLC-enumerated probe catalogue (exact rationals) replayed on the real constructors + TLA+ trace validation; FIN clause over the scan campaigns", "DESIGN.md 9 C20")

REL_NOTE = ("Trusted base: TLC; harness/drivers/relations.py + generic.py (builds both members of each pair from the campaign state, requests points that scale with the problem); "
            "the expected relation (dimension vectors, parities, similarity exponents, route field maps, tolerances) is computed by TLC from spec/Relations.tla in sign/log integer "
            "arithmetic with rational exponents. Finite campaign, exhaustively enumerated (expensive routes are a seeded sample in the quick tier).")
REL_TECH = "TLA+ trace validation (TLC) of pair relations over a TLC-enumerated campaign"
claim("C07", "model_checking",
      "Routes of spec/RelCampaign.tla (Noh=Cog19, Noh=black-box Noh with an ideal gas and a physical Newton guess - solved once and solved again from another guess, Noh2=Noh2Cog, Noh2=Cog1(b=0, t->1-t, u->-u), every "
      "geometry wrapper = general class, Rod1D = the three planar sandwiches, Rod BC3 = mirrored BC4, Kenamond 2-D = 3-D on a common plane, IGEOS = GenEOS on ideal-gas data) "
      "crossed with the whole parameter campaign; both routes are run and TLC checks field-by-field agreement at the resolution class of the less accurate route.",
      REL_NOTE, REL_TECH, "DESIGN.md 9 C07")
claim("C08", "model_checking",
      "For 30 families (thirteen Coggeshall problems, both Riemann solvers and Guderley among them) TLC computes from the dimension vectors of spec/Relations.tla (exponents of M, L, T, Theta in exact rationals, configuration dependent for Sedov and Coggeshall) "
      "how every constructor parameter is rescaled for two independent scale-factor sets; the harness runs the solver in both unit systems and TLC checks that every output field "
      "changed by the factor its own dimension vector dictates (tolerance 5e-5: the same algorithm on rescaled inputs).",
      REL_NOTE, REL_TECH, "DESIGN.md 9 C08")
claim("C09", "model_checking",
      "Mirror image and Galilean boost of every state of the Riemann lattice (ideal-gas solver; the general-EOS solver on a seeded sample of the same lattice, its table translated with the boost), and exact rigid motions (rotations by Pythagorean angles, reflections, "
      "translations where the problem admits them) of Kenamond 1-3 and the DSD cylindrical expansion, enumerated by TLC; field parities and the additive velocity shift are "
      "owned by spec/Relations.tla.", REL_NOTE, REL_TECH, "DESIGN.md 9 C09")
claim("C10", "model_checking",
      "For Noh, Cog19, the Riemann solver, Mader (cell size scaled with t), EHEP region I, Sedov and Guderley (pairs at equal t_L / r^lambda, lambda read off the solver's own shock trajectory; "
      "the specification needs only the length and time ratios of the pair), TLC enumerates time ratios {2, 7/3, 1/10} per configuration and computes the "
      "documented similarity exponents (Sedov: rational functions of geometry and omega) in exact rationals; the harness evaluates the solver at a point and at its similarity image "
      "and TLC checks field = field * ratio^exponent.", REL_NOTE, REL_TECH, "DESIGN.md 9 C10")

claim("C11", "model_checking",
      "Sedov campaign of spec/Campaign.tla (3 geometries x gamma x rho0 x blast energy x density exponents incl. the exactly rational singular exponent "
      "omega* = (3j-2+gamma(2-j))/(gamma+1) and a vacuum-type exponent, computed by TLC; 2-3 times): the solver is observed on its own exact table nodes "
      "(request = linspace(0, r_shock, 3001)); the energy and mass integrals behind the shock (Simpson on the nodes, power-law treatment of the integrable "
      "singularity at the vacuum boundary, quadrature uncertainty passed as slack) must equal the blast energy and the initial mass inside the shock radius, and the "
      "state ahead must be (rho0 r^-omega, 0, 0) with the right-hand side computed by TLC from the user's parameters.",
      MEAS, TECH, "DESIGN.md 9 C11")

claim("C13", "model_checking",
      "Burn-time campaign (Kenamond 1-3 in 2-D and 3-D, DSD cylindrical expansion; detonator positions / times, radii, speeds, curvature coefficients enumerated by TLC under the "
      "documented admissibility conditions): straight scans through the explosive incl. across the material interface, across the shadow boundary and exactly behind the obstacle; "
      "per point TLC checks the operands of the first-arrival laws of spec/Profile.tla: burn time at a detonator = its detonation time, never before the first detonation, "
      "|dt| <= |dx| / D(local material) between consecutive scan points (continuity across interfaces and the shadow boundary included), |grad t| D_local = 1 "
      "(DSD: 1/(D_CJ - alpha/r)) where two finite-difference steps agree (kinks of the min/max composition are skipped).",
      MEAS, TECH, "DESIGN.md 9 C13")

claim("C15", "model_checking",
      "(a) Tier A exact model spec/Exact_Elastic.tla: 33 rational materials (lambda, G) incl. auxetic, lambda = 0 and non-positive-definite ones; TLC proves the isotropic identities "
      "and the equivalence of the two positive-definiteness criteria exactly on the grid and enumerates the 15 parameter pairs; every state is replayed on Blake's constructor and "
      "spec/TraceElastic.tla checks that the solver's six parameters reproduce the supplied pair, satisfy the identities and equal the model's (either root for the two-valued (E, M) pair), "
      "and that non-PD materials are rejected. (b) Field laws (Catalogue.FieldLaws): wave equation with the longitudinal speed, strains = derivatives of the displacement, Hooke's law, "
      "pressure, deviators, density, sigma_rr = -p0 on the cavity wall, zero ahead of the front, on the Blake campaign.",
      MEAS, "exact rational TLA+ model checked by TLC + conformance replay; TLA+ trace validation of measured field laws", "DESIGN.md 9 C15")
claim("C16", "model_checking",
      "spec/EosCampaign.tla enumerates EOS classes x constants x states in the domain of validity, the four residual formulations x symmetries x initial states, and Newton solves; "
      "the harness measures closure inverses, analytic partials vs 4th-order central differences, Jacobian entries vs differences of the residual, equilibrated J J^-1 - I, and the jump "
      "conditions of converged solves (planar symmetry for non-ideal EOS, all symmetries for the ideal gas; constants given at construction or reached through the public setters after a first use); spec/TraceEos.tla checks each term vector (2e-5) and D > 0.",
      MEAS, TECH, "DESIGN.md 9 C16")

claim("C14", "model_checking",
      "Heat campaign (Rod1D BC1-BC4 homogeneous and non-homogeneous, two Robin coefficient sets, the three planar sandwiches, Hutchens 1 and 2, Rectangle; diffusivities, lengths, "
      "end temperatures, boundary values enumerated by TLC; times in units of L^2/kappa): per configuration the term vectors of the declared diffusion equation (4th-order differences), "
      "of each declared boundary operator alpha T + beta dT/dn - gamma (one-sided differences), the t -> 0+ limit against the declared initial profile, the t -> infinity limit against the "
      "steady solution of the boundary operators, and regularity at r = 0; names fixed by Catalogue.FieldLaws, tolerance of the series class. The cylindrical sandwich (8 s per call) is not scanned.",
      MEAS, TECH, "DESIGN.md 9 C14")

claim("C18", "model_checking",
      "Su-Olson campaign (epsilon 0.1 ... 2 through the user's alpha, opacity, boundary temperature; dimensionless times 0.01 ... 10; 6-7 positions incl. x = 0 and the far tail): "
      "TLC checks the documented conversion itself (epsilon = 4a/alpha, x = sqrt3 kappa z, tau = 4ac kappa t/alpha, u = (T_rad/T_bc)^4, v = (T_mat/T_bc)^4, evaluated in sign/log arithmetic from "
      "the user's parameters), the two diffusion equations and the Marshak condition as term vectors (differences sized to the solver's 1e-6 absolute quadrature tolerance), decay ahead of the wave, "
      "and the ordering / monotonicity bounds.", MEAS, TECH, "DESIGN.md 9 C18")

claim("C12", "model_checking",
      "Radiative-shock campaign (equilibrium diffusion, non-equilibrium diffusion in its closure variants; Mach numbers incl. embedded hydrodynamic shocks, gamma, specific heat, reference "
      "temperature, density; the Sn solver (20 s) is not scanned): (a) through the public call at two times the displacement of the profile is measured from the returned fields and TLC compares "
      "the implied speed with M0 sqrt(gamma (gamma-1) Cv Tref) computed in sign/log arithmetic from the USER's parameters, and the shape at equal offsets must not change; (b) along the whole steady "
      "profile mass flux, momentum flux incl. radiation pressure and energy flux incl. the radiative flux are constant; (c) the upstream end is the user's ambient state and both ends are in "
      "radiative equilibrium.", MEAS, TECH, "DESIGN.md 9 C12")

claim("C19", "model_checking",
      "2-D steady Riemann campaign (supersonic bottom / top lattices: pressure, density, Mach number, flow angle, gamma incl. unequal ones, enumerated by TLC): a sweep in polar angle through the "
      "returned fields finds the constant states, oblique shocks, the slip line and fans from the fields alone (wave rays by m-ary search); the sequence must be a word of the region grammar; "
      "TLC checks per shock the normal mass / momentum flux, total enthalpy and tangential velocity with the LOCATED ray, at the slip line equal pressure and direction and that the line lies along "
      "the flow, per fan state the isentrope, total enthalpy and turning = nu(M2) - nu(M1) with the true Prandtl-Meyer function, and on every state speed^2 = u^2 + v^2, M = speed / c.",
      MEAS, TECH, "DESIGN.md 9 C19")

NOT_APPLICABLE = {}
