"""property id -> (category, text, note, technique, design_ref); only built checks are claimed"""
CHECKS = {}
PENDING = {}


def claim(pid, category, text, note, technique, ref):
    CHECKS[pid] = (category, text, note, technique, ref)


def pending(pid, reason):
    PENDING[pid] = reason


MEAS = ("Trusted base: TLC; the Python projection (harness/measure.py, harness/drivers) that calls the public solver API, "
        "takes finite differences / locates discontinuities and encodes the measured operands as integers; "
        "tolerances in spec/Laws.tla (resolution classes). The real arithmetic of the solver is not modelled in TLA+.")

claim("C03", "model_checking",
      "TLC enumerates the whole parameter campaign (spec/Campaign.tla: every family x geometry x gamma x coefficient values of the tier) and, "
      "for each configuration, validates the scan trace recorded from the real solver against spec/Profile.tla: on every returned point the "
      "EOS declared in spec/Catalogue.tla is evaluated by TLC itself in sign/log integer arithmetic. Exhaustive over the stated finite campaign; "
      "not a proof for all reals.",
      MEAS, "TLA+ trace validation of measured scans (TLC) over a TLC-enumerated campaign", "DESIGN.md 9 C03")

for p in ["C01", "C02", "C04", "C05", "C06", "C07", "C08", "C09", "C10", "C11", "C12", "C13", "C14", "C15", "C16", "C17", "C18", "C19", "C20"]:
    pending(p, "check under construction in this round (design in DESIGN.md section 9); not claimed until it runs soundly on the unchanged tree")
