"""Relation-based checks (C07-C10): RelCampaign (TLC) -> pair runs -> TraceRel (TLC)."""
import json, random, time

from . import core, scans, tlc


def rel_check(prop, prefixes, fams, rels, tier, sample=None, text_rule=None, assumptions=None):
    t0 = time.time()
    verdict = core.Verdict(prop)
    wd = tlc.workdir("rc_" + prop)
    core.write_cfg(wd + "/rc.cfg", ["SPECIFICATION RSpec", "CONSTANTS", "  Camps = %s" % core.tla_set(sorted(fams)),
                                    '  Tier = "%s"' % tier, "  Rels = %s" % core.tla_set(sorted(rels)), "INVARIANT REmit"])
    cres = tlc.must(tlc.run("RelCampaign", wd + "/rc.cfg", "rc_" + prop, workers=1))
    sts, seen = [], set()
    for j in cres["json"]:
        if "st" in j:
            k = json.dumps(j, sort_keys=True)
            if k not in seen:
                seen.add(k); sts.append(j)
    sts.sort(key=lambda s: json.dumps(s, sort_keys=True))
    if sample:
        # expensive pairs: a seeded sample per (family, relation, route)
        rng = random.Random(core.seed() + 17)
        keep, groups = [], {}
        for s in sts:
            groups.setdefault((s["st"]["fam"], s["rs"]["rel"], s["rs"].get("route", "")), []).append(s)
        for g, lst in sorted(groups.items()):
            n = sample.get(g[2] or g[1], sample.get(g[0]))
            # an int: that many in the quick tier, 20 times as many in the thorough tier; a pair (quick, thorough), None = all
            cap = None if n is None else (n[0 if tier == "quick" else 1] if isinstance(n, tuple) else (n if tier == "quick" else 20 * n))
            if cap is not None and len(lst) > cap:
                lst = rng.sample(lst, cap)
            keep += lst
        sts = keep
    jobs = [("relations", s, set(), i + 1) for i, s in enumerate(sts)]
    out = scans.run_scans(jobs)
    events, errors, evals = [], [], 0
    for tid, ev, st, err in out:
        if err is not None:
            errors.append((tid, err)); continue
        events += ev; evals += st["evals"]
    # a solver that raises on a configuration of the campaign is judged by C20 (FIN.raised), not here
    if errors:
        print("# note: %d pairs not evaluated because a solver raised (judged by C20): e.g. %s" % (len(errors), errors[0][1].splitlines()[0][:120]))
    tv = core.validate_trace("TraceRel", "TraceRel.cfg", events, prop, boundary=lambda e: True)
    if not tv["accepted"]:
        raise tlc.TLCError("relation trace not consumed")
    hits = 0
    for fl in tv["failed"]:
        s = sts[fl["tid"] - 1]
        e = events[fl["i"] - 1]
        for clause in fl["failed"]:
            if not any(clause.startswith(p) for p in prefixes):
                continue
            hits += 1
            cfg = scans.cfg_key(s["st"]); cfg["route"] = s["rs"].get("route", "")
            verdict.fail({"cls": s["st"]["fam"], "clause": clause, "cfg": cfg}, {"state": s, "event": e, "clause": clause})
    rc = verdict.finish()
    distinct = {(s["st"]["fam"], s["rs"]["rel"], s["rs"].get("route", ""), json.dumps(s["st"]["par"], sort_keys=True)) for s in sts}
    kinds = {}
    for s in sts:
        k = "%s/%s%s" % (s["st"]["fam"], s["rs"]["rel"], ("/" + s["rs"]["route"]) if "route" in s["rs"] else "")
        kinds[k] = kinds.get(k, 0) + 1
    cov = {"states": cres["distinct"] + tv["states"], "transitions": cres["states"] + tv["generated"],
           "traces_validated_against_impl": len(sts) - len(errors),
           "samples": [{"pair": sts[0] if sts else None, "event": events[0] if events else None}],
           "evaluations": evals, "distinct_nontrivial": len(distinct),
           "rule": text_rule or ("pairs (configuration x relation parameters) enumerated by TLC from spec/RelCampaign.tla; both members of each pair are "
                                 "run on the real solvers and every requested point gives one Rel event whose expected relation TLC computes from the tables "
                                 "of spec/Relations.tla; distinct = (family, relation, route, parameter set)"),
           "pairs": len(sts), "rel_events": len(events), "pairs_by_kind": kinds, "solver_raised": len(errors),
           "failed_clauses_this_property": hits, "known_findings_hit": verdict.known, "exhaustive": not sample}
    core.write_evidence(prop, tier, "model_checking", cov, time.time() - t0, len(verdict.violations), assumptions)
    return rc
