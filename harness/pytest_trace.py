"""pytest plugin (use: PYTHONPATH=/verif pytest -p harness.pytest_trace ...): records every solver construction
and every solver call that the repository's own tests make, as Session events (one behaviour per test), into the
file named by VERIF_TRACE_OUT.  Nothing in /repo is touched: ExactSolver's metaclass __call__ and ExactSolver.__call__
are wrapped at run time."""
import json
import os

import numpy as np

_events = []
_objs = {}
_tid = [0]
_shape = {}


def _name(cls):
    return (cls.__module__ + "." + cls.__name__).replace("exactpack.solvers.", "")


def pytest_configure(config):
    from exactpack import base
    meta = type(base.ExactSolver)
    orig_new = meta.__call__
    orig_call = base.ExactSolver.__call__
    try:
        from harness import registry
        reg = registry.registry()
        for n, sp in reg.items():
            _shape[n] = sp.shape
    except Exception:
        pass

    def construct(cls, *a, **k):
        ev = {"tid": _tid[0], "op": "Construct", "cls": _name(cls), "mode": "observed"}
        try:
            obj = orig_new(cls, *a, **k)
        except Exception as ex:
            ev["obj"] = 0
            ev["outcome"] = type(ex).__name__
            _events.append(ev)
            raise
        oid = len(_objs) + 1
        _objs[id(obj)] = (oid, obj)          # keep the object alive: ids stay unique within a test
        ev["obj"] = oid
        ev["outcome"] = "ok"
        _events.append(ev)
        return obj

    def call(self, r, t):
        ent = _objs.get(id(self))
        if ent is None:
            return orig_call(self, r, t)
        oid = ent[0]
        name = _name(type(self))
        arr = np.asarray(r)
        before = arr.copy() if isinstance(r, np.ndarray) else None
        ev = {"tid": _tid[0], "op": "Call", "obj": oid, "cls": name, "container": type(r).__name__, "order": "observed", "lenient": True}
        try:
            sol = orig_call(self, r, t)
        except Exception as ex:
            ev.update({"outcome": type(ex).__name__, "n": 0, "len": 0, "echo": True, "pos_first": True, "names": [], "input_unchanged": True, "same_as_array": True})
            _events.append(ev)
            raise
        try:
            shape = _shape.get(name, "1d")
            if arr.ndim <= 1:
                cs = [np.atleast_1d(arr).astype(float)]
            elif shape == "2N":
                cs = [arr[j].astype(float) for j in range(arr.shape[0])]
            else:
                cs = [arr[:, j].astype(float) for j in range(arr.shape[1])]
            n = len(cs[0])
            names = list(sol.dtype.names)
            def eq(nm, c):
                f = np.asarray(sol[nm])
                return f.dtype.kind == "f" and f.shape == c.shape and np.array_equal(f, c, equal_nan=True)
            pos_first = len(names) >= len(cs) and all(eq(names[j], cs[j]) for j in range(len(cs)))
            echo = pos_first or all(any(eq(nm, c) for nm in names) for c in cs)
            unchanged = True if before is None else bool(np.array_equal(before, r, equal_nan=True) if before.dtype.kind == "f" else np.array_equal(before, r))
            ev.update({"outcome": "ok", "n": int(n), "len": int(len(sol)), "echo": bool(echo), "pos_first": bool(pos_first), "names": names,
                       "input_unchanged": unchanged, "same_as_array": True})
        except Exception as ex:          # the observation itself must never break a test
            ev.update({"outcome": "ok", "n": int(len(sol)), "len": int(len(sol)), "echo": True, "pos_first": True, "names": list(sol.dtype.names),
                       "input_unchanged": True, "same_as_array": True, "observer_error": type(ex).__name__})
        _events.append(ev)
        return sol
    meta.__call__ = construct
    base.ExactSolver.__call__ = call


def pytest_runtest_setup(item):
    _tid[0] += 1


def pytest_runtest_teardown(item, nextitem):
    if _events and _events[-1].get("op") != "Reset":
        _events.append({"tid": _tid[0], "op": "Reset", "obj": 0, "cls": item.nodeid[:120]})
    _objs.clear()


def pytest_sessionfinish(session, exitstatus):
    out = os.environ.get("VERIF_TRACE_OUT")
    if out:
        if _events and _events[-1].get("op") != "Reset":
            _events.append({"tid": _tid[0], "op": "Reset", "obj": 0, "cls": "end"})
        if not _events:
            return          # the xdist controller records nothing itself
        with open("%s.%d" % (out, os.getpid()), "w") as f:
            json.dump(_events, f)
