"""Generic measurement (projection) of solver output: field extraction, finite
differences, discontinuity location.  Contains no expected values and no
per-solver physics; everything is taken from the public call."""
import contextlib
import io
import math
import warnings
import numpy as np

FIELD = {"density": "rho", "velocity": "u", "pressure": "p",
         "specific_internal_energy": "e", "temperature": "T",
         "sound_speed": "c", "sound": "c"}


def fields_of(sol):
    out = {}
    for n in sol.dtype.names:
        if n in FIELD:
            a = np.asarray(sol[n])
            if np.iscomplexobj(a):
                # a complex value is not a solution value: treated as non-finite
                a = np.where(a.imag == 0, a.real, np.nan)
            out[FIELD[n]] = np.asarray(a, dtype=float)
    return out


class Evaluator:
    """Wraps a solver's public call; counts evaluations."""

    def __init__(self, solver):
        self.solver = solver
        self.calls = 0
        self.points = 0

    def __call__(self, r, t):
        r = np.atleast_1d(np.asarray(r, dtype=float))
        self.calls += 1
        self.points += r.size
        with warnings.catch_warnings():
            warnings.simplefilter("ignore")
            with np.errstate(all="ignore"), contextlib.redirect_stdout(io.StringIO()):
                sol = self.solver(r, t)
        return fields_of(sol)


def d1(fm2, fm1, fp1, fp2, h):
    """4th-order first derivative, written so that an exactly constant field
    gives exactly zero."""
    return (8.0 * (fp1 - fm1) - (fp2 - fm2)) / (12.0 * h)


def stencil_r(F, r, t, h, width=2):
    """fields on the stencil r + j*h, j=-width..width at time t.
    returns dict name -> array (len(r), 2*width+1)"""
    offs = np.arange(-width, width + 1)
    R = r[:, None] + h[:, None] * offs[None, :]
    f = F(R.ravel(), t)
    return {k: v.reshape(R.shape) for k, v in f.items()}


def stencil_t(F, r, t, ht):
    """fields at times t + j*ht, j=-2..2; dict name -> (len(r),5)"""
    cols = [F(r, t + j * ht) for j in (-2, -1, 0, 1, 2)]
    return {k: np.stack([c[k] for c in cols], axis=1) for k in cols[0]}


def dr(S, name, h):
    a = S[name]
    m = a.shape[1] // 2
    return d1(a[:, m - 2], a[:, m - 1], a[:, m + 1], a[:, m + 2], h)


def dt(S, name, ht):
    a = S[name]
    return d1(a[:, 0], a[:, 1], a[:, 3], a[:, 4], ht)


def locate_jumps(F, t, a, b, n=400, names=("rho", "u", "p", "e", "T"),
                 thresh=1e-3, iters=60, grid=None):
    """Locate discontinuities of the returned fields in [a, b] at time t.
    A candidate interval (relative step of some field > thresh of the field's
    range) is bisected; it is a discontinuity if the step survives refinement
    to ~1e-14 relative width.  Returns sorted list of positions."""
    x = np.linspace(a, b, n) if grid is None else np.asarray(grid, float)
    f = F(x, t)
    keys = [k for k in names if k in f]
    scale = {k: max(np.nanmax(np.abs(f[k])), 1e-300) for k in keys}

    def step(fl, fr):
        s = 0.0
        for k in keys:
            vl, vr = fl[k], fr[k]
            if not (np.isfinite(vl) and np.isfinite(vr)):
                continue
            s = max(s, abs(vr - vl) / scale[k])
        return s

    found = []
    steps = np.zeros(len(x) - 1)
    for k in keys:
        v = f[k]
        d = np.abs(np.diff(v)) / scale[k]
        d[~np.isfinite(d)] = 0.0
        steps = np.maximum(steps, d)
    for i in range(len(x) - 1):
        j0 = steps[i]
        if j0 < thresh:
            continue
        # a discontinuity is an isolated large step; on a fine grid a smooth steep
        # profile has neighbouring steps of similar size
        nb = max(steps[i - 1] if i > 0 else 0.0, steps[i + 1] if i + 1 < len(steps) else 0.0)
        if j0 < 3.0 * nb:
            continue
        fl = {k: f[k][i] for k in keys}
        fr = {k: f[k][i + 1] for k in keys}
        lo, hi = x[i], x[i + 1]
        flo, fhi = fl, fr
        for _ in range(iters):
            mid = 0.5 * (lo + hi)
            if mid == lo or mid == hi:
                break
            fm_ = F(np.array([mid]), t)
            fm = {k: fm_[k][0] for k in keys}
            sl_, sr_ = step(flo, fm), step(fm, fhi)
            if sl_ >= sr_:
                hi, fhi = mid, fm
            else:
                lo, flo = mid, fm
        if step(flo, fhi) > 0.3 * j0 and step(flo, fhi) > thresh:
            found.append(0.5 * (lo + hi))
    return sorted(found)


def near(x, xs, band):
    """boolean mask: |x - any xs| <= band (band array or scalar)"""
    m = np.zeros(x.shape, dtype=bool)
    for s in xs:
        m |= np.abs(x - s) <= band
    return m


def refine_kary(pred, lo, hi, rounds=12, m=33, F=None):
    """boundary of a monotone predicate on [lo, hi] (pred(lo) != pred(hi)) by
    m-ary search with one vectorised evaluation per round.  pred(xs) -> bool array.
    returns (lo, hi) bracketing the switch to ~ (hi-lo)/32**rounds."""
    plo = bool(pred(np.array([lo]))[0])
    for _ in range(rounds):
        xs = np.linspace(lo, hi, m)
        if xs[1] == xs[0]:
            break
        v = np.asarray(pred(xs), bool)
        v[0] = plo
        idx = np.nonzero(v != plo)[0]
        if len(idx) == 0:
            lo = xs[-2]
            continue
        i = idx[0]
        lo, hi = xs[i - 1], xs[i]
    return lo, hi


def wave_structure(F, t, a, b, n=2001, names=("rho", "u", "p", "e"), flat_tol=1e-11, jump_thresh=1e-7):
    """Wave structure of a piecewise smooth profile at time t from the fields
    alone: list of segments [('const'|'vary', x_lo, x_hi)] and discontinuities.
    A discontinuity is a step that does not shrink under refinement."""
    x = np.linspace(a, b, n)
    f = F(x, t)
    keys = [k for k in names if k in f]
    scale = {k: max(np.nanmax(np.abs(f[k])), 1e-300) for k in keys}

    def dist(fa, i, fb, j):
        return max(abs(fa[k][i] - fb[k][j]) / scale[k] for k in keys)

    steps = np.array([dist(f, i, f, i + 1) for i in range(n - 1)])
    vary = steps > flat_tol
    jumps = []
    i = 0
    # isolated steps that survive refinement are discontinuities
    cand = [i for i in range(n - 1) if steps[i] > jump_thresh]
    isjump = np.zeros(n - 1, bool)
    for i in cand:
        lo, hi = x[i], x[i + 1]
        s0 = steps[i]
        for _ in range(10):
            xs = np.linspace(lo, hi, 33)
            if xs[1] == xs[0]:
                break
            g = F(xs, t)
            st = np.array([dist(g, j, g, j + 1) for j in range(32)])
            j = int(np.argmax(st))
            lo, hi = xs[j], xs[j + 1]
            s1 = st[j]
        if s1 > 0.5 * s0 and s1 > jump_thresh:
            jumps.append(0.5 * (lo + hi))
            isjump[i] = True
    return x, f, steps, vary, isjump, jumps, scale
