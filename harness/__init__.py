"""Model-based verification harness for lanl/ExactPack (TLA+ / TLC)."""
