"""Every solver that a scan driver constructs gets a bystander: a second solver of the same class with other
parameter values, constructed right after it and called with the same request right before its first call; the solver under test is itself
called once at an earlier time before its first measured call.  A scan therefore never observes a solver that is
alone in its interpreter or has no past: state shared between the instances of a class
(class attributes, module globals, caches keyed on the request) shows up in the measured laws of every property,
not only in the history check C06.  Installed in the scan workers only (never in the C05 / C06 replays, whose
operation sequences are dictated by the specification); wraps the metaclass __call__ and ExactSolver.__call__ at
run time, nothing in the repository is edited.  A bystander that is refused (ValueError for the perturbed values)
or that raises when called is simply not there."""
import contextlib
import io
import warnings

import numpy as np

_installed = [False]
_busy = [False]
FACTOR = 1.37
KEEP = ("geometry", "symmetry", "Nsum", "num_x_pts", "num_int_pts")


def _other(v):
    if isinstance(v, float):
        return v * FACTOR
    if isinstance(v, (tuple, list)) and v and all(isinstance(x, float) for x in v):
        return type(v)(x * FACTOR for x in v)
    return v


def install():
    if _installed[0]:
        return
    _installed[0] = True
    from exactpack import base
    meta = type(base.ExactSolver)
    orig_new = meta.__call__
    orig_call = base.ExactSolver.__call__

    def construct(cls, *a, **k):
        obj = orig_new(cls, *a, **k)
        if _busy[0] or not isinstance(obj, base.ExactSolver):
            return obj
        _busy[0] = True
        try:
            obj.__dict__["_verif_first"] = True
            other = {kk: (v if kk in KEEP else _other(v)) for kk, v in k.items()}
            try:
                with contextlib.redirect_stdout(io.StringIO()), warnings.catch_warnings():
                    warnings.simplefilter("ignore")
                    by = orig_new(cls, *a, **other)
                obj.__dict__["_verif_bystander"] = by
            except Exception:
                pass
        finally:
            _busy[0] = False
        return obj

    def quietly(fn):
        _busy[0] = True
        try:
            with contextlib.redirect_stdout(io.StringIO()), warnings.catch_warnings(), np.errstate(all="ignore"):
                warnings.simplefilter("ignore")
                fn()
        except Exception:
            pass
        finally:
            _busy[0] = False

    def call(self, r, t):
        d = getattr(self, "__dict__", {})
        first = d.pop("_verif_first", False)
        by = d.pop("_verif_bystander", None)
        if first and not _busy[0]:
            if by is not None:
                quietly(lambda: orig_call(by, np.array(r, copy=True), t))
            # ... and the solver under test has a past of its own: the same request at an earlier time (a time sweep is ordinary
            # use); what that leaves behind on the object must not matter to the call that is measured
            quietly(lambda: orig_call(self, np.array(r, copy=True), 0.37 * t))
        return orig_call(self, r, t)
    meta.__call__ = construct
    base.ExactSolver.__call__ = call
