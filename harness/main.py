"""Entry point: ./check Cxx [--tier quick|thorough] [--replay path]
exit 0 = property held on everything explored (known findings are printed),
exit 1 = VIOLATION line(s) printed, exit 2 = machinery failure."""
import argparse, importlib, os, sys, traceback


def main():
    ap = argparse.ArgumentParser()
    ap.add_argument("prop")
    ap.add_argument("--tier", default=os.environ.get("VERIF_TIER", "quick"), choices=["quick", "thorough"])
    ap.add_argument("--replay", default=None)
    a = ap.parse_args()
    try:
        mod = importlib.import_module("harness.props." + a.prop)
    except ImportError as ex:
        print("no check for property %s: %s" % (a.prop, ex))
        return 2
    try:
        if a.replay:
            return mod.replay(a.replay)
        return mod.run(a.tier)
    except SystemExit:
        raise
    except Exception:
        traceback.print_exc()
        print("MACHINERY-FAILURE property=%s" % a.prop)
        return 2


if __name__ == "__main__":
    sys.exit(main())
