"""Scan driver for the Mader rarefaction (cell averages on the request grid).
The request is an increasing grid of cells from the CJ end (x = 0) to beyond the tail
of the Taylor wave; every cell is one point of the scan (the cell that straddles the
tail is the interesting one)."""
import math
import numpy as np

from .. import encode as E
from .. import measure as M
from . import generic as G


def preload():
    G.cls_of("Mader")


def scan(state, groups, tid):
    kw = G.kwargs(state)
    t = E.qf(state["t"])
    solver = G.build("Mader", kw)
    D, gam, pcj, up = kw["d_cj"], kw["gamma"], kw["p_cj"], kw["u_piston"]
    rho0 = (gam + 1) * pcj / D ** 2
    rhocj, ccj, ucj = rho0 * (gam + 1) / gam, gam * D / (gam + 1), D / (gam + 1)
    stats = {"points": 0, "jumps": 0, "pattern": None, "evals": 0}
    par = {"gm1": E.sl(gam - 1), "gamma": E.sl(gam), "gammaQ": E.q(E.qfrac(state["par"]["gamma"])),
           "pcj": E.sl(pcj), "rhocj": E.sl(rhocj)}
    ev = [{"k": "Cfg", "tid": tid, "fam": "Mader", "groups": sorted(groups), "par": par, "geometry": 1}]
    first = {}
    # several cell sizes: the tail of the wave falls at different fractions of a cell
    for n in (37, 101, 256):
        x = np.linspace(0.0, 0.98 * D * t, n)
        sol = G.call(solver, x, t)
        stats["evals"] += n
        f = {"rho": np.asarray(sol["density"], float), "u": np.asarray(sol["velocity"], float),
             "p": np.asarray(sol["pressure"], float), "c": np.asarray(sol["sound_speed"], float)}
        flat = np.abs(f["u"] - up) <= 1e-12 * D
        for i in range(n - 1):                       # the last cell's width is not defined by the grid
            fin = all(np.isfinite(f[k][i]) for k in f)
            e_ = {"k": "Pt", "tid": tid, "reg": "mader", "fin": bool(fin), "smooth": False, "x": E.sl(x[i] + 1e-300),
                  "v": {k: E.sl(f[k][i]) for k in f} if fin else {}, "bal": {}, "grid": n}
            ev.append(e_)
            stats["points"] += 1
        if n == 256:
            # CJ state at the detonation end of the wave (first cell, cell average over dx: O(dx) from the CJ point)
            L = {k: float(f[k][0]) for k in f}
            ev.append({"k": "Bnd", "tid": tid, "b": {k: {"min": E.sl(float(np.min(f[k][:-1]))), "max": E.sl(float(np.max(f[k][:-1]))),
                                                       "lo": E.sl(min(f[k][n - 2], v)), "hi": E.sl(max(f[k][n - 2], v))}
                                                  for k, v in (("rho", rhocj), ("u", ucj), ("p", pcj), ("c", ccj))}})
        if n in (101, 256):
            first[n] = ({k: float(f[k][0]) for k in f}, x[1] - x[0])
        if n == 256 and "RH" in groups:
            # the CJ state at the detonation front: first-cell averages of the two finer grids extrapolated to zero cell size,
            # against the unreacted state implied by the documented p_cj = rho0 D^2 / (gamma + 1) and the CJ heat release
            (f1, d1), (f2, d2) = first[101], first[256]
            cj = {k: (f2[k] * d1 - f1[k] * d2) / (d1 - d2) for k in f1}
            w = D - cj["u"]
            q = D * D / (2.0 * (gam * gam - 1.0))
            ev.append({"k": "Jump", "tid": tid, "kind": "detonation", "ahead": "R", "s": E.sl(D), "x": E.sl(D * t),
                       "bal": {"mass": E.e8([cj["rho"] * w, -rho0 * D]), "mom": E.e8([cj["p"], cj["rho"] * w * w, -rho0 * D * D]),
                               "ener": E.e8([gam / (gam - 1) * cj["p"] / cj["rho"], 0.5 * w * w, -q, -0.5 * D * D])},
                       "cj": E.e8([cj["u"] + cj["c"], -D]),
                       "L": {k: E.sl(v) for k, v in cj.items()}, "R": {"rho": E.sl(rho0), "p": E.sl(0.0), "u": E.sl(0.0)}})
            stats["jumps"] += 1
        ev.append({"k": "Brk", "tid": tid})          # a new grid: the walk starts again
    ev.append({"k": "End", "tid": tid})
    return ev, stats
