"""Scan driver for the heat-conduction solvers (property C14).  Each family declares (in its
documentation) a diffusion equation, boundary operators, an initial profile and a steady
solution; the driver measures the term vectors of those declarations on the returned
temperature field (finite differences of the public call)."""
import math
import numpy as np

from .. import encode as E
from . import generic as G

BC = {"BC1": (1, 0, 1, 0), "BC2": (0, 1, 0, 1), "BC3": (1, 0, 0, 1), "BC4": (0, 1, 1, 0),
      "RobinA": (1.0, -0.5, 1.0, 0.5), "RobinB": (2.0, -1.0, 1.0, 1.0)}


def preload():
    import exactpack.solvers.heat  # noqa: F401


class NonFinite(Exception):
    pass


def bal(terms, floor):
    if not all(math.isfinite(float(x)) for x in terms):
        raise NonFinite(repr(terms))
    return E.e8(terms, floor)


def d2(f, x, h):
    return (-f(x + 2 * h) + 16 * f(x + h) - 30 * f(x) + 16 * f(x - h) - f(x - 2 * h)) / (12 * h * h)


def d1c(f, x, h):
    return (8 * (f(x + h) - f(x - h)) - (f(x + 2 * h) - f(x - 2 * h))) / (12 * h)


def d1f(f, x, h):
    """one-sided (forward, h > 0 / backward, h < 0) first derivative, 4th order"""
    return (-25 * f(x) + 48 * f(x + h) - 36 * f(x + 2 * h) + 16 * f(x + 3 * h) - 3 * f(x + 4 * h)) / (12 * h)


def rod_solver(state):
    """(solver, kappa, L, (a1,b1,g1,a2,b2,g2), TL, TR) for the rod-like families"""
    from exactpack.solvers.heat import Rod1D, PlanarSandwich, PlanarSandwichHot, PlanarSandwichHalf
    fam = state["fam"]
    p = {k: G.value(v) for k, v in state["par"].items()}
    import contextlib, io
    with contextlib.redirect_stdout(io.StringIO()):
        if fam in ("Rod1D", "RodNH"):
            a1, b1, a2, b2 = BC[p["bc"]]
            g1, g2 = p.get("g1", 0.0), p.get("g2", 0.0)
            s = Rod1D(kappa=p["kappa"], L=p["L"], TL=p["TL"], TR=p["TR"], alpha1=a1, beta1=b1, gamma1=g1, alpha2=a2, beta2=b2, gamma2=g2, Nsum=200)
        else:
            kind = p["kind"]
            common = dict(kappa=p["kappa"], L=p["L"], TL=p["TL"], TR=p["TR"], Nsum=400)
            if kind == "PlanarSandwich":
                s = PlanarSandwich(TB=p["b1"], TT=p["b2"], **common); a1, b1, g1, a2, b2, g2 = 1, 0, p["b1"], 1, 0, p["b2"]
            elif kind == "PlanarSandwichHot":
                s = PlanarSandwichHot(F=p["b2"], **common); a1, b1, g1, a2, b2, g2 = 0, 1, p["b2"], 0, 1, p["b2"]
            else:
                s = PlanarSandwichHalf(TB=p["b1"], FT=p["b2"], **common); a1, b1, g1, a2, b2, g2 = 1, 0, p["b1"], 0, 1, p["b2"]
    return s, p["kappa"], p["L"], (a1, b1, g1, a2, b2, g2), p["TL"], p["TR"]


def scan(state, groups, tid):
    fam = state["fam"]
    t = E.qf(state["t"])
    ev = [{"k": "Cfg", "tid": tid, "fam": fam, "groups": sorted(groups), "par": {}, "geometry": state["geometry"]}]
    stats = {"points": 0, "jumps": 0, "evals": 0, "pattern": None}

    def pt(x, eq, reg="all", fin=True):
        ev.append({"k": "Pt", "tid": tid, "reg": reg, "fin": bool(fin), "smooth": True, "x": E.sl(abs(x) + 1e-300), "v": {}, "bal": {}, "eq": eq, "ineq": {}})
        stats["points"] += 1

    if fam in ("Rod1D", "RodNH", "Sandwich"):
        s, kap, L, (a1, b1, g1, a2, b2, g2), TL, TR = rod_solver(state)
        tt = t * L * L / kap                     # campaign time is in units of L^2 / kappa

        def T(x, time=tt):
            stats["evals"] += 1
            return float(G.call(s, np.array([x], float), time)["temperature"][0])
        Ts = max(abs(TL), abs(TR), abs(g1), abs(g2), 1.0)
        h = 2e-3 * L
        for x in np.linspace(0.1, 0.9, 9) * L:
            Tt = d1c(lambda q: T(x, q), tt, 1e-3 * tt)
            pt(x, {"heat": bal([Tt, -kap * d2(T, x, h)], kap * Ts / (L * L))}, fin=np.isfinite(T(x)))
        # boundary operators alpha T + beta dT/dx = gamma (one-sided differences)
        hb = 1e-3 * L
        pt(0.0, {"bc-left": bal([a1 * T(0.0), b1 * d1f(T, 0.0, hb), -g1], max(abs(a1), abs(b1) / L) * Ts)}, "all")
        pt(L, {"bc-right": bal([a2 * T(L), b2 * d1f(T, L, -hb), -g2], max(abs(a2), abs(b2) / L) * Ts)}, "all")
        # t -> 0+ : the declared initial profile TL + (TR - TL) x / L in the interior
        t0 = 1e-4 * L * L / kap
        for x in np.linspace(0.2, 0.8, 5) * L:
            pt(x, {"initial": bal([T(x, t0), -(TL + (TR - TL) * x / L)], Ts)})
        # t -> infinity: the steady solution A + B x of the boundary operators (when they determine one)
        M = np.array([[a1, b1], [a2, a2 * L + b2]], float)
        if abs(np.linalg.det(M)) > 1e-9:
            A, B = np.linalg.solve(M, np.array([g1, g2], float))
            tinf = 60.0 * L * L / kap
            for x in np.linspace(0.1, 0.9, 4) * L:
                pt(x, {"steady": bal([T(x, tinf), -(A + B * x)], Ts)})
    elif fam == "Hutchens1":
        from exactpack.solvers.heat import Hutchens1
        p = {k: G.value(v) for k, v in state["par"].items()}
        s = Hutchens1(Nsum=400, **p)
        al = p["k"] / (p["rho"] * p["cp"])
        b = p["b"]
        tt = t * b * b / al

        def T(r, time=tt):
            stats["evals"] += 1
            return float(G.call(s, np.array([r], float), time)["temperature"][0])
        Ts = max(abs(p["Tb"]), abs(p["T0"]))
        h = 2e-3 * b
        for r in np.linspace(0.15, 0.9, 8) * b:
            Tt = d1c(lambda q: T(r, q), tt, 1e-3 * tt)
            pt(r, {"heat": bal([Tt, -al * d2(T, r, h), -al * 2 * d1c(T, r, h) / r], al * Ts / (b * b))})
        pt(b, {"bc-surface": bal([T(b), -p["Tb"]], Ts)})
        t0 = 1e-4 * b * b / al
        for r in np.linspace(0.2, 0.8, 4) * b:
            pt(r, {"initial": bal([T(r, t0), -p["T0"]], Ts)})
        for r in np.linspace(0.1, 0.9, 3) * b:
            pt(r, {"steady": bal([T(r, 40 * b * b / al), -p["Tb"]], Ts)})
        # the value at the coordinate singularity is the limit of nearby values
        lim = (4 * T(1e-3 * b) - T(2e-3 * b)) / 3.0          # even function of r: Richardson to r = 0
        pt(1e-300, {"regular": bal([T(0.0), -lim], Ts)})
    elif fam == "Rectangle":
        from exactpack.solvers.heat import Rectangle
        p = {k: G.value(v) for k, v in state["par"].items()}
        s = Rectangle(Nsum=60, **p)
        a, b, kap = p["a"], p["b"], p["kappa"]
        tt = t * min(a, b) ** 2 / kap / 4

        def T(x, y, time=tt):
            stats["evals"] += 1
            return float(G.call(s, np.array([[x], [y]], float), time)["temperature"][0])
        Ts = abs(p["Ttop"])
        hx, hy = 2e-3 * a, 2e-3 * b
        for fx, fy in ((0.2, 0.3), (0.5, 0.5), (0.7, 0.25), (0.35, 0.7), (0.8, 0.6)):
            x, y = fx * a, fy * b
            Tt = d1c(lambda q: T(x, y, q), tt, 1e-3 * tt)
            pt(x, {"heat": bal([Tt, -kap * d2(lambda q: T(q, y), x, hx), -kap * d2(lambda q: T(x, q), y, hy)], kap * Ts / min(a, b) ** 2)})
        for fx in (0.3, 0.5, 0.8):
            pt(fx * a, {"bc-bottom": bal([T(fx * a, 0.0), 0.0], Ts)})
        for fy in (0.3, 0.6):
            # documented: zero heat flux through the sides
            pt(fy * b, {"bc-left": bal([d1f(lambda q: T(q, fy * b), 0.0, 1e-3 * a) * a, 0.0], Ts),
                        "bc-right": bal([d1f(lambda q: T(q, fy * b), a, -1e-3 * a) * a, 0.0], Ts)})
        # early enough that diffusion from the hot top has not reached the interior (erfc(5) ~ 1e-12), late enough that
        # the truncated double series (Nsum = 60) has converged: exp(-kappa alpha^2 t0) ~ e^-44 at the truncation order
        t0 = 1e-3 * min(a, b) ** 2 / kap
        for fx, fy in ((0.3, 0.3), (0.5, 0.5), (0.6, 0.7)):
            pt(fx * a, {"initial": bal([T(fx * a, fy * b, t0), 0.0], Ts)})
    elif fam == "CylSandwich":
        from exactpack.solvers.heat import CylindricalSandwich
        p = {k: G.value(v) for k, v in state["par"].items()}
        s = CylindricalSandwich(**p)
        a, b, kap, T0, T1 = p["a"], p["b"], p["kappa"], p["T0"], p["T1"]
        tt = t * (b - a) ** 2 / kap
        Ts = max(abs(T0), abs(T1), 1.0)
        hr, hth, ht = 2e-3 * (b - a), 2e-3 * math.pi / 2, 1e-3 * tt
        interior = [(a + 0.25 * (b - a), 0.5), (a + 0.6 * (b - a), 0.9), (a + 0.85 * (b - a), 0.3)]
        R, TH = [], []
        for r, th in interior:                              # 9-point cross per interior point
            R += [r + q * hr for q in (-2, -1, 0, 1, 2)] + [r] * 4
            TH += [th] * 5 + [th + q * hth for q in (-2, -1, 1, 2)]
        edge_r = [a + 0.3 * (b - a), a + 0.7 * (b - a)]
        for r in edge_r:                                    # the two straight edges theta = 0, pi/2
            R += [r, r]; TH += [0.0, math.pi / 2]
        edge_th = [0.5, 1.0]
        for th in edge_th:                                  # one-sided stencils at the inner and outer arc
            R += [a + q * hr for q in range(5)] + [b - q * hr for q in range(5)]
            TH += [th] * 10
        pts = np.array([R, TH], float)

        def T(time):
            stats["evals"] += pts.shape[1]
            return np.asarray(G.call(s, pts, time)["temperature"], float)   # every call recomputes the eigenvalues (8 s): one call per time level
        F = {q: T(tt + q * ht) for q in (-2, -1, 0, 1, 2)}
        f = F[0]
        for i, (r, th) in enumerate(interior):
            o = 9 * i
            Tt = (8 * (F[1][o + 2] - F[-1][o + 2]) - (F[2][o + 2] - F[-2][o + 2])) / (12 * ht)
            Trr = (-f[o + 4] + 16 * f[o + 3] - 30 * f[o + 2] + 16 * f[o + 1] - f[o]) / (12 * hr * hr)
            Tr = (8 * (f[o + 3] - f[o + 1]) - (f[o + 4] - f[o])) / (12 * hr)
            Tqq = (-f[o + 8] + 16 * f[o + 7] - 30 * f[o + 2] + 16 * f[o + 6] - f[o + 5]) / (12 * hth * hth)
            pt(r, {"heat": bal([Tt / kap, -Trr, -Tr / r, -Tqq / (r * r)], Ts / (b - a) ** 2)}, fin=np.isfinite(f[o + 2]))
        o = 27
        for j, r in enumerate(edge_r):
            pt(r, {"bc-bottom": bal([f[o + 2 * j], -T0], Ts), "bc-top": bal([f[o + 2 * j + 1], -T1], Ts)})
        o = 31
        for j, th in enumerate(edge_th):
            ia, ib = f[o + 10 * j:o + 10 * j + 5], f[o + 10 * j + 5:o + 10 * j + 10]
            da = (-25 * ia[0] + 48 * ia[1] - 36 * ia[2] + 16 * ia[3] - 3 * ia[4]) / (12 * hr)
            db = (-25 * ib[0] + 48 * ib[1] - 36 * ib[2] + 16 * ib[3] - 3 * ib[4]) / (12 * -hr)
            pt(a, {"bc-left": bal([da * (b - a), 0.0], Ts), "bc-right": bal([db * (b - a), 0.0], Ts)})
        f0 = T(1e-4 * (b - a) ** 2 / kap)
        finf = T(50.0 * (b - a) ** 2 / kap)
        for i, (r, th) in enumerate(interior):
            o = 9 * i + 2
            pt(r, {"initial": bal([f0[o], 0.0], Ts),                       # declared: T(r, theta, 0) = 0
                   "steady": bal([finf[o], -(T0 + 2 * th * T1 / math.pi)], Ts)})   # the stated steady solution
    elif fam == "Hutchens2":
        from exactpack.solvers.heat import Hutchens2
        p = {k: G.value(v) for k, v in state["par"].items()}
        s = Hutchens2(Nsum=100, **p)
        b, L = p["b"], p["L"]

        def T(r, z):
            stats["evals"] += 1
            return float(G.call(s, np.array([[r], [z]], float), 1.0)["temperature"][0])
        Ts = max(abs(p["Tb"]), abs(p["T0"]), abs(p["TL"]), abs(p["g0"]) * L * L / p["k"], 1.0)
        hr, hz = 2e-3 * b, 2e-3 * L
        for fr, fz in ((0.3, 0.3), (0.5, 0.5), (0.7, 0.6), (0.4, 0.8)):
            r, z = fr * b, fz * L
            pt(r, {"heat": bal([d2(lambda q: T(q, z), r, hr), d1c(lambda q: T(q, z), r, hr) / r, d2(lambda q: T(r, q), z, hz), p["g0"] / p["k"]],
                                Ts / min(b, L) ** 2)})
        for fz in (0.3, 0.7):
            pt(b, {"bc-surface": bal([T(b, fz * L), -p["Tb"]], Ts)})
        for fr in (0.3, 0.7):
            pt(fr * b, {"bc-bottom": bal([T(fr * b, 0.0), -p["T0"]], Ts), "bc-top": bal([T(fr * b, L), -p["TL"]], Ts)})
    ev.append({"k": "End", "tid": tid})
    return ev, stats


_scan = scan


def scan(state, groups, tid):
    try:
        return _scan(state, groups, tid)
    except NonFinite as ex:
        # the solver returned NaN / inf inside its domain: one non-finite point (clause FIN), no further laws
        ev = [{"k": "Cfg", "tid": tid, "fam": state["fam"], "groups": sorted(groups), "par": {}, "geometry": state["geometry"]},
              {"k": "Pt", "tid": tid, "reg": "all", "fin": False, "smooth": False, "x": E.sl(1.0), "v": {}, "bal": {}, "eq": {}, "ineq": {}},
              {"k": "End", "tid": tid}]
        return ev, {"points": 1, "jumps": 0, "evals": 1, "pattern": "nonfinite"}
