"""Scan driver for the 1-D Riemann solvers (IGEOS_Solver, GenEOS_Solver).

The wave structure is found from the returned fields alone: constant-state
plateaus on a fine grid, discontinuities and fan edges refined by m-ary search,
wave speeds from the located positions at t -/+ dt.  Emits Cfg / Pt / Jump / Int
/ Bnd / End events for spec/TraceScan.tla."""
import contextlib
import io
import math
import numpy as np

from .. import encode as E
from .. import measure as M

NAMES = ("rho", "u", "p", "e")


class Degenerate(Exception):
    pass


def preload():
    import os
    os.environ.setdefault("MPLBACKEND", "Agg")
    import exactpack.solvers.riemann.ep_riemann  # noqa: F401  (pulls in matplotlib once, before forking)


def make_solver(state, **over):
    from exactpack.solvers.riemann.ep_riemann import IGEOS_Solver, GenEOS_Solver
    par = {k: (v if isinstance(v, (int, str)) else E.qf(v)) for k, v in state["par"].items()}
    par.update(over)
    cls = GenEOS_Solver if state["fam"].startswith("RiemannGen") else IGEOS_Solver
    with contextlib.redirect_stdout(io.StringIO()):
        return cls(**par), par


def dist(fa, i, ref, scale):
    return max(abs(fa[k][i] - ref[k]) / scale[k] for k in NAMES)


def structure(F, t, xd0, speed_guess, flat=1e-11, n=4001):
    """plateaus and transitions at time t.  Returns dict with
    plateaus: list of state dicts; edges: list of (kind, x_lo, x_hi) per transition
    kind 'jump' -> x_lo == x_hi == position; 'fan' -> head/tail positions."""
    W = speed_guess * t
    for attempt in range(8):
        a, b = xd0 - W, xd0 + W
        x = np.linspace(a, b, n)
        f = F(x, t)
        if not all(np.all(np.isfinite(f[k])) for k in NAMES):
            raise Degenerate("non-finite field on the structure grid")
        scale = {k: max(np.max(np.abs(f[k])), 1e-300) for k in NAMES}
        same = np.ones(n - 1, bool)
        for k in NAMES:
            same &= np.abs(np.diff(f[k])) <= flat * scale[k]
        # plateaus: maximal runs of >= 8 equal points
        runs, i = [], 0
        while i < n - 1:
            if same[i]:
                j = i
                while j < n - 1 and same[j]:
                    j += 1
                if j - i >= 8:
                    runs.append((i, j))
                i = j
            else:
                i += 1
        if runs and runs[0][0] == 0 and runs[-1][1] == n - 1 and \
                (runs[0][1] - runs[0][0]) > 0.03 * n and (runs[-1][1] - runs[-1][0]) > 0.03 * n:
            break
        W *= 2.0
    else:
        raise Degenerate("waves not contained in any window")
    plats = [{k: float(f[k][i0]) for k in NAMES} for (i0, i1) in runs]
    edges = []
    for (r0, r1), (s0, s1), P, Q in zip(runs[:-1], runs[1:], plats[:-1], plats[1:]):
        # leave plateau P somewhere in [x[r1], x[r1+1]]; enter Q in [x[s0-1], x[s0]]
        def inP(xs, P=P):
            g = F(xs, t)
            return np.array([dist(g, j, P, scale) <= flat for j in range(len(xs))])

        def inQ(xs, Q=Q):
            g = F(xs, t)
            return np.array([dist(g, j, Q, scale) <= flat for j in range(len(xs))])
        lo, hi = M.refine_kary(inP, x[r1], x[min(r1 + 1, n - 1)])
        lo2, hi2 = M.refine_kary(lambda xs: ~inQ(xs), x[max(s0 - 1, 0)], x[s0])
        xl, xr = 0.5 * (lo + hi), 0.5 * (lo2 + hi2)
        if abs(xr - xl) <= 1e-9 * max(abs(b - a), 1e-300):
            edges.append(("jump", xl, xl))
        else:
            edges.append(("fan", xl, xr))
    return {"plateaus": plats, "edges": edges, "window": (a, b), "scale": scale, "grid": (x, f)}


def jump_position(F, t, x0, P, scale, half, flat=1e-11):
    """position at time t of the discontinuity that leaves plateau state P, near x0"""
    def inP(xs):
        g = F(xs, t)
        return np.array([dist(g, j, P, scale) <= flat for j in range(len(xs))])
    lo, hi = M.refine_kary(inP, x0 - half, x0 + half)
    return 0.5 * (lo + hi)


REGS = ["L", "Ls", "Rs", "R"]
FANS = {0: "fanL", 2: "fanR"}


def side_gamma(par, reg):
    return par["gl"] if reg in ("L", "fanL", "Ls") else par["gr"]


def pde_euler(F, x, t, dx, dt_):
    """Euler residual terms (planar) at points x by 4th-order differences"""
    Sr = M.stencil_r(F, x, t, dx * np.ones_like(x), 2)
    St = M.stencil_t(F, x, t, dt_)
    rho, u, p, e = (Sr[k][:, 2] for k in ("rho", "u", "p", "e"))
    h = dx * np.ones_like(x)
    rho_r, u_r, p_r, e_r = (M.dr(Sr, k, h) for k in ("rho", "u", "p", "e"))
    rho_t, u_t, e_t = (M.dt(St, k, dt_) for k in ("rho", "u", "e"))
    return {"mass": [rho_t, u * rho_r, rho * u_r, 0 * rho],
            "mom": [u_t, u * u_r, p_r / rho],
            "ener": [e_t, u * e_r, p / rho * u_r, 0 * rho]}


def gauss_legendre(fun, a, b, n=48):
    xs, ws = np.polynomial.legendre.leggauss(n)
    x = 0.5 * (b - a) * xs + 0.5 * (a + b)
    return 0.5 * (b - a) * np.dot(ws, fun(x))


def scan(state, groups, tid):
    solver, par = make_solver(state)
    t = E.qf(state["t"]) if "t" in state else par.get("t", 0.25)
    F = M.Evaluator(solver)
    xd0 = par.get("xd0", 0.5)
    gl, gr = par.get("gl", 1.4), par.get("gr", 1.4)
    al = math.sqrt(gl * par["pl"] / par["rl"]); ar = math.sqrt(gr * par["pr"] / par["rr"])
    guess = 2.0 * (max(abs(par["ul"]), abs(par["ur"])) + 2 * max(al, ar))
    st = structure(F, t, xd0, guess)
    if len(st["plateaus"]) != 4:
        st = structure(F, t, xd0, guess, n=24001)        # a star region narrower than 0.4 % of the window: look six times closer
    plats, edges = st["plateaus"], st["edges"]
    scale = st["scale"]
    cpar = {"gm1l": E.sl(gl - 1), "gm1r": E.sl(gr - 1), "gammal": E.sl(gl), "gammar": E.sl(gr)}
    ev = [{"k": "Cfg", "tid": tid, "fam": state["fam"], "groups": sorted(groups), "par": cpar, "geometry": 1}]
    stats = {"points": 0, "jumps": 0, "pattern": None,
             "uclass": "ul<ur" if par["ul"] < par["ur"] else ("ul=ur" if par["ul"] == par["ur"] else "ul>ur")}
    pmin = min((P["p"] for P in plats), default=0.0)
    if len(plats) != 4 and pmin < 1e-6 * max(par["pl"], par["pr"]):
        # strongly receding gases: the star region is next to a vacuum (p* below 1e-6 of the initial pressures); its two states
        # differ by less than the resolution of a scan that measures against the initial states, so the contact cannot be located
        # and no structural verdict is drawn (counted in the evidence as pattern "near-vacuum")
        stats["evals"] = F.points
        stats["pattern"] = "near-vacuum"
        return [], stats
    if len(plats) in (2, 3) and all(e_[0] == "fan" for e_ in edges):
        # two receding fans that (nearly) touch: a star region narrower than 0.07 % of the scanned window cannot be told from a
        # point of a continuous profile by a scan; no structural verdict (pattern "fans-touch"; relations C07, C09, C10 still apply)
        stats["evals"] = F.points
        stats["pattern"] = "fans-touch"
        return [], stats
    if len(plats) != 4:
        # the grammar decides: emit the plateaus as anonymous regions
        for i, P in enumerate(plats):
            ev.append({"k": "Pt", "tid": tid, "reg": "plateau%d" % i, "fin": True, "smooth": False,
                       "x": E.sl(0), "v": {k: E.sl(v) for k, v in P.items()}, "bal": {}})
        ev.append({"k": "End", "tid": tid})
        stats["evals"] = F.points
        stats["pattern"] = "plateaus=%d" % len(plats)
        return ev, stats
    a, b = st["window"]
    dt_ = 1e-3 * t
    pattern = "".join("S" if edges[i][0] == "jump" else "R" for i in (0, 2))
    stats["pattern"] = pattern[0] + "C" + pattern[1]
    bounds = [a]
    # ---- walk left to right
    def pt(x, reg, bal=None, smooth=False):
        f = F(np.array([x]), t)
        fin = all(np.isfinite(f[k][0]) for k in f)
        e = {"k": "Pt", "tid": tid, "reg": reg, "fin": bool(fin), "smooth": bool(smooth),
             "x": E.sl(x - xd0), "v": {k: E.sl(f[k][0]) for k in f} if fin else {}, "bal": bal or {}}
        stats["points"] += 1
        return e

    prev_edge = a
    for i in range(4):
        lo = prev_edge
        hi = edges[i][1] if i < 3 else b
        # two points inside the plateau
        for fr in (0.25, 0.75):
            ev.append(pt(lo + fr * (hi - lo), REGS[i]))
        if i == 3:
            break
        kind, xl, xr = edges[i]
        if kind == "jump":
            half = 0.45 * min(xl - lo, (edges[i + 1][1] if i + 1 < 3 else b) - xl)
            xm = jump_position(F, t - dt_, xl - (xl - xd0) * dt_ / t, plats[i], scale, min(half, abs(xl - xd0) * 0.05 + 1e-6 * (b - a)))
            xp = jump_position(F, t + dt_, xl + (xl - xd0) * dt_ / t, plats[i], scale, min(half, abs(xl - xd0) * 0.05 + 1e-6 * (b - a)))
            s = (xp - xm) / (2 * dt_)
            L, R = plats[i], plats[i + 1]
            wl, wr = L["u"] - s, R["u"] - s
            ml, mr = L["rho"] * wl, R["rho"] * wr
            fl_m = max(L["rho"], R["rho"]) * max(math.sqrt(abs(L["p"] / L["rho"])), math.sqrt(abs(R["p"] / R["rho"]))) * 1e-3
            iscontact = i == 1
            bal = {"mass": E.e8([ml, -mr], fl_m),
                   "mom": E.e8([ml * wl, L["p"], -mr * wr, -R["p"]]),
                   "ener": E.e8([ml * (L["e"] + wl * wl / 2), L["p"] * wl, -mr * (R["e"] + wr * wr / 2), -R["p"] * wr],
                                max(L["p"], R["p"]) * max(abs(wl), abs(wr), math.sqrt(abs(L["p"] / L["rho"])) * 1e-3))}
            dp = abs(L["p"] - R["p"]) / scale["p"]; du = abs(L["u"] - R["u"]) / max(scale["u"], math.sqrt(scale["p"] / scale["rho"]))
            kindname = "contact" if (dp < 1e-6 and du < 1e-6) else "shock"
            ev.append({"k": "Jump", "tid": tid, "kind": kindname, "ahead": "L" if (ml + mr) > 0 else "R", "bal": bal,
                       "s": E.sl(s), "x": E.sl(xl - xd0),
                       "L": {k: E.sl(v) for k, v in L.items()}, "R": {k: E.sl(v) for k, v in R.items()},
                       "cont": {"p": E.e8([L["p"], -R["p"]]), "u": E.e8([L["u"], -R["u"]], math.sqrt(scale["p"] / scale["rho"])),
                                "s": E.e8([s, -0.5 * (L["u"] + R["u"])], math.sqrt(scale["p"] / scale["rho"]))}})
            stats["jumps"] += 1
            prev_edge = xl
        else:
            # a fan from xl (head/tail) to xr: interior points with PDE terms
            n = 7
            xs = xl + (xr - xl) * (np.arange(1, n + 1) / (n + 1.0))
            dx = (xr - xl) / 40.0
            terms = None
            if "PDE" in groups:
                terms = pde_euler(F, xs, t, dx, min(dt_, 0.02 * t))
            f = F(xs, t)
            for j in range(n):
                bal = {}
                if terms is not None:
                    S = abs(f["u"][j]) + math.sqrt(abs(f["p"][j] / f["rho"][j]))
                    Lh = abs(xr - xl)
                    bal = {"mass": E.e8([v[j] for v in terms["mass"]], 1e-3 * f["rho"][j] * S / Lh),
                           "mom": E.e8([v[j] for v in terms["mom"]], 1e-3 * S * S / Lh),
                           "ener": E.e8([v[j] for v in terms["ener"]], 1e-3 * S ** 3 / Lh)}
                # two decades down a fan towards a vacuum the fields follow a steep power law that a stencil with a step of 1/40 of the
                # fan does not resolve (truncation 1e-6 ... 3e-4): no smooth-law verdict there (values, EOS and monotonicity are still judged)
                resolved = f["p"][j] >= 2e-2 * max(par["pl"], par["pr"])
                e = {"k": "Pt", "tid": tid, "reg": FANS[i], "fin": True, "smooth": bool(resolved), "x": E.sl(xs[j] - xd0),
                     "v": {k: E.sl(f[k][j]) for k in f}, "bal": bal if resolved else {}}
                ev.append(e)
                stats["points"] += 1
            prev_edge = xr
    # ---- integral conservation on the window (all waves inside by construction)
    if "INT" in groups:
        Lst, Rst = plats[0], plats[3]
        segs = [a] + [x for e_ in edges for x in ((e_[1],) if e_[0] == "jump" else (e_[1], e_[2]))] + [b]
        def dens(x):
            g = F(x, t)
            return np.array([g["rho"], g["rho"] * g["u"], g["rho"] * (g["e"] + 0.5 * g["u"] ** 2)])
        tot = np.zeros(3)
        for s0, s1 in zip(segs[:-1], segs[1:]):
            if s1 - s0 <= 0:
                continue
            eps = 1e-12 * (b - a)
            xs_, ws_ = np.polynomial.legendre.leggauss(48)
            xx = 0.5 * (s1 - s0) * xs_ + 0.5 * (s0 + s1)
            tot += 0.5 * (s1 - s0) * (dens(xx) @ ws_)
        def cons(S):
            return np.array([S["rho"], S["rho"] * S["u"], S["rho"] * (S["e"] + 0.5 * S["u"] ** 2)])
        def flux(S):
            return np.array([S["rho"] * S["u"], S["rho"] * S["u"] ** 2 + S["p"],
                             S["u"] * (S["rho"] * (S["e"] + 0.5 * S["u"] ** 2) + S["p"])])
        init = cons(Lst) * (xd0 - a) + cons(Rst) * (b - xd0)
        fl, fr = flux(Lst), flux(Rst)
        cs = math.sqrt(scale["p"] / scale["rho"])
        floors = [scale["rho"] * (b - a), scale["rho"] * cs * (b - a), scale["p"] * (b - a)]
        ints = {}
        for q, name in enumerate(("mass", "mom", "ener")):
            ints[name] = E.e8([tot[q], -init[q], -t * fl[q], t * fr[q]], floors[q] * 1e-2)
        ev.append({"k": "Int", "tid": tid, "bal": ints, "window_ok": True})
    if "ADM" in groups:
        x, f = st["grid"]
        bnd = {}
        for k in ("rho", "p", "e"):
            vals = [P[k] for P in plats]
            bnd[k] = {"min": E.sl(float(np.min(f[k]))), "max": E.sl(float(np.max(f[k]))),
                      "lo": E.sl(min(vals)), "hi": E.sl(max(vals))}
        ev.append({"k": "Bnd", "tid": tid, "b": bnd})
    ev.append({"k": "End", "tid": tid})
    stats["evals"] = F.points
    return ev, stats
