"""Pair-relation driver (C07-C10): two runs of the real solvers related by a
change of units / a symmetry / the similarity map / an alternative route; one
Rel event per requested point for spec/TraceRel.tla."""
import numpy as np

from .. import encode as E
from . import generic as G


def floors(fa):
    return {n: (1e-9 * float(np.nanmax(np.abs(v))) if np.any(np.isfinite(v)) else 0.0) for n, v in fa.items()}


def rel_events(tid, rel, fam, res, fa, fb, extra, fl=None):
    fl = fl or floors(fa)
    ev = []
    npts = len(next(iter(fa.values())))
    for i in range(npts):
        a, b, f = {}, {}, {}
        for n in fa:
            if n not in fb:
                continue
            x, y = float(fa[n][i]), float(fb[n][i])
            if not (np.isfinite(x) and np.isfinite(y)):
                if np.isfinite(x) != np.isfinite(y):
                    a[n], b[n], f[n] = E.sl(1.0), E.sl(-1.0), E.sl(0.0)   # finite in one run only: a mismatch
                continue
            a[n], b[n], f[n] = E.sl(x), E.sl(y), E.sl(fl[n])
        e = {"k": "Rel", "tid": tid, "rel": rel, "fam": fam, "res": res, "a": a, "b": b, "fl": f}
        e.update(extra)
        ev.append(e)
    return ev


def unit(state, rs, tid):
    fam = state["fam"]
    kw = G.kwargs(state)
    t = E.qf(state["t"])
    sc = rs["scale"]
    pts = G.request(fam, kw, t)
    sa = G.call(G.build(fam, kw), pts, t)
    kw2 = {}
    for k, v in kw.items():
        dim = rs["dimpar"].get(k)
        kw2[k] = v if (dim is None or isinstance(v, str) or k == "geometry") else G.scale_value(v, dim, sc)
    L, T = E.qf(sc["L"]), E.qf(sc["T"])
    sb = G.call(G.build(fam, kw2), pts * L, t * T)
    fa, fb = G.fields(sa), G.fields(sb)
    scale_sl = {u: E.sl(E.qf(sc[u])) for u in ("M", "L", "T", "K")}
    return rel_events(tid, "Unit", fam, state["row"]["res"], fa, fb, {"scale": scale_sl}), 2 * len(pts)


def similar_guderley(state, rs, tid):
    """Guderley: fields depend on x = t_L / r^lambda through the documented prefactors.  lambda is not a parameter: it is
    read off the solver's own converging-shock trajectory r_s = (-t_L)^(1/lambda) (located from the returned density).  The
    image of (r, t_L) under a change of length by the factor a is (a r, q t_L) with q = a^lambda; the specification then needs
    only a and q: density unchanged, velocities x a/q, pressure and energy x (a/q)^2."""
    import math
    from . import guderley as GD
    kw = G.kwargs(state)
    t = E.qf(state["t"])
    a = E.qf(rs["tratio"])
    s = G.build("Guderley", kw)
    tLs = -0.5
    def rho(r):
        return G.fields(G.call(s, np.asarray(r, float), GD.FACTOR * (tLs + 1.0)))["density"]
    grid = np.linspace(0.02, 1.5, 400)
    v = rho(grid)
    i = int(np.argmax(np.abs(np.diff(np.log(v)))))
    lo, hi = grid[i], grid[i + 1]
    for _ in range(9):
        xs = np.linspace(lo, hi, 18)
        w = rho(xs)
        q_ = int(np.argmax(np.abs(np.diff(np.log(w)))))
        lo, hi = xs[q_], xs[q_ + 1]
    lam = math.log(-tLs) / math.log(0.5 * (lo + hi))
    tL = t / GD.FACTOR - 1.0
    q = a ** lam
    pts = G.request("Guderley", kw, t)
    sa = G.call(s, pts, t)
    sb = G.call(G.build("Guderley", kw), pts * a, GD.FACTOR * (q * tL + 1.0))
    fa, fb = G.fields(sa), G.fields(sb)
    extra = {"tratio": E.sl(q), "lratio": E.sl(a), "geometry": state["geometry"], "omega": [0, 1]}
    return rel_events(tid, "Similar", "Guderley", state["row"]["res"], fa, fb, extra), 2 * len(pts) + 400 + 9 * 18


def similar(state, rs, tid):
    if state["fam"] == "Guderley":
        return similar_guderley(state, rs, tid)
    fam = state["fam"]
    kw = G.kwargs(state)
    t = E.qf(state["t"])
    q = E.qf(rs["tratio"])
    er = E.qf(rs["simexp"]["rshock"])           # positions scale like t^er
    pts = G.request(fam, kw, t)
    if fam == "EHEP":
        # region I (the centred Taylor wave) is the self-similar part; it is bounded by the
        # characteristic through the piston: keep points whose region label is 'I' at both times
        kw = dict(kw, xmax=max(kw.get("xmax", 10.0), 50.0), tmax=max(kw.get("tmax", 10.0), 50.0))
        pts = np.linspace(0.55, 0.98, 7) * kw["D"] * t
    sa = G.call(G.build(fam, kw), pts, t)
    if fam.startswith("Riemann"):
        x0 = kw.get("xd0", 0.5)
        pts2 = x0 + (pts - x0) * q ** er
    else:
        pts2 = pts * q ** er
    sb = G.call(G.build(fam, kw), pts2, t * q)
    fa, fb = G.fields(sa), G.fields(sb)
    if fam == "EHEP":
        keep = np.array([(str(a) == "I" and str(b) == "I") for a, b in zip(sa["region"], sb["region"])])
        if not keep.any():
            return [], 0
        fa = {n: v[keep] for n, v in fa.items()}; fb = {n: v[keep] for n, v in fb.items()}
    fa.pop("xdet", None); fb.pop("xdet", None)
    extra = {"tratio": E.sl(q), "geometry": state["geometry"],
             "omega": E.q(E.qfrac(state["par"]["omega"])) if "omega" in state["par"] else [0, 1]}
    return rel_events(tid, "Similar", fam, state["row"]["res"], fa, fb, extra), 2 * len(pts)


def _mirror_kw(kw):
    m = dict(kw)
    m.update(rl=kw["rr"], pl=kw["pr"], ul=-kw["ur"], gl=kw["gr"], rr=kw["rl"], pr=kw["pl"], ur=-kw["ul"], gr=kw["gl"])
    m["xd0"] = -kw.get("xd0", 0.5)
    m["xmin"], m["xmax"] = -kw.get("xmax", 1.0), -kw.get("xmin", 0.0)
    return m


def _off_table_jumps(solver, pts):
    """mask of request points that are NOT within two cells of a discontinuity of a tabulated solver (the general-EOS Riemann
    solver keeps its table in the attributes x, r, p, e after a call): a point inside the smeared cell takes the state of either
    side depending on round-off, which says nothing about the relation under test.  Closed-form solvers: all True."""
    pts = np.asarray(pts, float)
    if not all(hasattr(solver, a_) for a_ in ("x", "r", "p", "e")) or type(solver).__name__ != "GenEOS_Solver":
        return np.ones(len(pts), bool)
    x, r_, e_ = np.asarray(solver.x, float), np.asarray(solver.r, float), np.asarray(solver.e, float)
    with np.errstate(all="ignore"):
        big = (np.abs(np.diff(r_)) > 0.02 * np.maximum(np.abs(r_[1:]), np.abs(r_[:-1]))) | \
              (np.abs(np.diff(e_)) > 0.02 * np.maximum(np.abs(e_[1:]), np.abs(e_[:-1])))
    xs = 0.5 * (x[1:] + x[:-1])[big]
    dx = (x[-1] - x[0]) / max(len(x) - 1, 1)
    if xs.size == 0:
        return np.ones(len(pts), bool)
    return np.min(np.abs(pts[:, None] - xs[None, :]), axis=1) > 2.5 * dx


def _root_resolved(fa):
    """mask of points whose star velocity is resolved by the solver's own root finder: the star pressure is a bisection root with
    scipy's absolute tolerance 2e-12, so next to a vacuum (p* ~ 1e-9) the velocity computed from one side carries
    du = dp / sqrt(gamma p rho); where that exceeds a few 1e-6 of the speed scale the two members of a pair (which compute it
    from opposite sides) legitimately differ"""
    with np.errstate(all="ignore"):
        du = 1e-11 / np.sqrt(fa["pressure"] * fa["density"])
        sc = np.maximum(np.abs(fa["velocity"]), np.sqrt(fa["pressure"] / fa["density"]))
        ok = du <= 5e-6 * sc
    return np.where(np.isfinite(du), ok, True)


def _keep(fa, fb, mask):
    return {n: v[mask] for n, v in fa.items()}, {n: v[mask] for n, v in fb.items()}


def _root_floor(fa):
    """the star pressure is a bisection root with scipy's absolute tolerance 2e-12: next to a vacuum (p* ~ 1e-9) the star velocity,
    computed from one side, carries du = dp / sqrt(gamma p rho); the mirrored problem computes it from the other side"""
    with np.errstate(all="ignore"):
        v = 1e-11 / np.sqrt(fa["pressure"] * fa["density"])
    v = v[np.isfinite(v)]
    return float(np.max(v)) if v.size else 0.0


def mirror(state, rs, tid):
    fam = state["fam"]
    kw = G.kwargs(state)
    t = E.qf(state["t"])
    pts = G.request(fam, kw, t)
    A, B = G.build(fam, kw), G.build(fam, _mirror_kw(kw))
    sa = G.call(A, pts, t)
    sb = G.call(B, -pts[::-1], t)
    fa = G.fields(sa)
    fb = {n: v[::-1] for n, v in G.fields(sb).items()}
    fa, fb = _keep(fa, fb, _off_table_jumps(A, pts) & _off_table_jumps(B, -pts[::-1])[::-1] & _root_resolved(fa))
    fl = floors(fa)
    fl["velocity"] = max(fl.get("velocity", 0.0), 1e-9 * float(np.sqrt(np.nanmax(fa["pressure"] / fa["density"]))), _root_floor(fa))
    return rel_events(tid, "Mirror", fam, state["row"]["res"], fa, fb, {}, fl), 2 * len(pts)


def boost(state, rs, tid):
    fam = state["fam"]
    kw = G.kwargs(state)
    t = E.qf(state["t"])
    U = E.qf(rs["boost"])
    pts = G.request(fam, kw, t)
    kb = dict(kw, ul=kw["ul"] + U, ur=kw["ur"] + U)
    if fam != "RiemannIG":
        # the general-EOS solver tabulates the solution on [xmin, xmax]: the table of the boosted problem is the translated table
        # (window of 10 t either side of the membrane, the translation U t is a whole number of its cells)
        x0 = kw.get("xd0", 0.5)
        kw = dict(kw, xmin=x0 - 10 * t, xmax=x0 + 10 * t)
        kb = dict(kb, xmin=x0 - 10 * t + U * t, xmax=x0 + 10 * t + U * t)
    A, B = G.build(fam, kw), G.build(fam, kb)
    sa = G.call(A, pts, t)
    sb = G.call(B, pts + U * t, t)
    fa, fb = G.fields(sa), G.fields(sb)
    fa, fb = _keep(fa, fb, _off_table_jumps(A, pts) & _off_table_jumps(B, pts + U * t) & _root_resolved(fa))
    ua, ub = fa.pop("velocity"), fb.pop("velocity")
    c = float(np.sqrt(np.nanmax(fa["pressure"] / fa["density"])))
    c = max(c, 1e3 * _root_floor(fa))          # the velocity balance is judged against c x 1e-8 x tolerance: keep the root-finder's resolution above it
    ev = rel_events(tid, "Boost", fam, state["row"]["res"], fa, fb, {})
    for i, e in enumerate(ev):
        e["ubal"] = E.e8([ub[i], -ua[i], -U], c)
    return ev, 2 * len(pts)


def _move(P, m, fam, g):
    """apply the rigid motion to an (N, g) array of points; the problem's symmetry axis is the last coordinate"""
    P = np.array(P, float)
    c, s = E.qf(m["c"]), E.qf(m["s"])
    Q = P.copy()
    if m["kind"] == "rot":
        if g == 2:
            Q[:, 0], Q[:, 1] = c * P[:, 0] - s * P[:, 1], s * P[:, 0] + c * P[:, 1]
        else:
            if fam == "Kenamond1":       # any axis: rotate in the (y, z) plane
                Q[:, 1], Q[:, 2] = c * P[:, 1] - s * P[:, 2], s * P[:, 1] + c * P[:, 2]
            else:                        # about the z axis
                Q[:, 0], Q[:, 1] = c * P[:, 0] - s * P[:, 1], s * P[:, 0] + c * P[:, 1]
    elif m["kind"] == "refl":
        Q[:, 0] = -P[:, 0]               # through the axis (2-D) / a plane containing it (3-D)
    elif m["kind"] == "shift":
        Q[:, 0] += c; Q[:, -1] += s
    return Q


def rigid(state, rs, tid):
    fam = state["fam"]
    kw = G.kwargs(state)
    t = E.qf(state["t"])
    m = rs["motion"]
    g = kw.get("geometry", 2)
    pts = G.request(fam, kw, t)
    sa = G.call(G.build(fam, kw), pts, t)
    kb = dict(kw)
    if fam in ("Kenamond1", "Kenamond3"):
        kb["x_d"] = tuple(_move([kw["x_d"]], m, fam, g)[0])
    sb = G.call(G.build(fam, kb), _move(pts, m, fam, g), t)
    return rel_events(tid, "Rigid", fam, state["row"]["res"], G.fields(sa), G.fields(sb), {}), 2 * len(pts)


# ----------------------------------------------------------------------------- routes (C07)
def _wrapper_class(fam, g):
    import importlib
    base = G.cls_of(fam)
    mod = importlib.import_module(base.__module__)
    name = {1: "Planar", 2: "Cylindrical", 3: "Spherical"}[g] + base.__name__
    if hasattr(mod, name):
        return getattr(mod, name)
    if fam == "Sedov":
        import exactpack.solvers.sedov as S
        return getattr(S, name, None)
    return None


def route(state, rs, tid):
    import contextlib, io, warnings
    fam = state["fam"]
    kw = G.kwargs(state)
    t = E.qf(state["t"])
    r = rs["route"]
    res = state["row"]["res"]
    pts = G.request(fam, kw, t)
    sa = G.call(G.build(fam, kw), pts, t)
    fa = G.fields(sa)
    tb, ptsb, flip = t, pts, False
    with contextlib.redirect_stdout(io.StringIO()), warnings.catch_warnings():
        warnings.simplefilter("ignore")
        if r == "wrapper":
            W = _wrapper_class(fam, kw["geometry"])
            if W is None:
                return [], 0
            k2 = {k: v for k, v in kw.items() if k in W.parameters}
            if set(kw) - set(k2) - {"geometry"}:
                return [], 0          # the wrapper exposes fewer parameters: not a common parameter set
            sb = W(**k2)
        elif r == "Noh=Cog19":
            from exactpack.solvers.cog.cog19 import Cog19
            sb = Cog19(geometry=kw["geometry"], gamma=kw["gamma"], rho0=kw["rho0"], u0=kw["u0"], Gamma=40.0)
        elif r in ("Noh=BlackBoxNoh", "Noh=BlackBoxNoh.resolved"):
            from exactpack.solvers.nohblackboxeos.blackboxnoh import NohBlackBoxEos
            from exactpack.solvers.nohblackboxeos.equations_of_state.eos_library import ideal_gas_eos
            g, gam = kw["geometry"], kw["gamma"]
            ic = {"density": kw["rho0"], "velocity": kw["u0"], "pressure": 0, "symmetry": g - 1}
            sb = NohBlackBoxEos(ideal_gas_eos(gam), ic, geometry=g, rho0=kw["rho0"], u0=kw["u0"])
            # a physically reasonable starting guess: strong-shock compression, e = u0^2/2, D = |u0|(gamma-1)/2
            sb.set_new_solver_initial_guess([kw["rho0"] * ((gam + 1) / (gam - 1)) ** g * 0.8, 0.45 * kw["u0"] ** 2,
                                             0.6 * abs(kw["u0"]) * (gam - 1) / 2])
            sb.solve_jump_conditions()
            if r.endswith(".resolved"):
                # the same object solves again from another reasonable guess (a user scanning guesses / tolerances)
                sb.set_new_solver_initial_guess([kw["rho0"] * ((gam + 1) / (gam - 1)) ** g * 0.9, 0.4 * kw["u0"] ** 2,
                                                 0.7 * abs(kw["u0"]) * (gam - 1) / 2])
                sb.solve_jump_conditions()
            res = "root"
        elif r == "Noh2=Noh2Cog":
            from exactpack.solvers.noh2.noh2_cog import Noh2Cog
            sb = Noh2Cog(**kw)
        elif r == "Noh2=Cog1":
            from exactpack.solvers.cog.cog1 import Cog1
            Gam = 40.0
            sb = Cog1(geometry=kw["geometry"], gamma=kw["gamma"], rho0=kw["rho0"], temp0=kw["e0"] * (kw["gamma"] - 1) / Gam, b=0.0, Gamma=Gam)
            tb, flip = 1.0 - t, True
        elif r == "Rod=Sandwich":
            from exactpack.solvers.heat import PlanarSandwich, PlanarSandwichHot, PlanarSandwichHalf
            a1, b1, a2, b2 = kw["alpha1"], kw["beta1"], kw["alpha2"], kw["beta2"]
            common = dict(kappa=kw["kappa"], L=kw["L"], TL=kw["TL"], TR=kw["TR"], Nsum=100)
            g1, g2 = kw.get("gamma1", 0.0), kw.get("gamma2", 0.0)
            if (a1, b1, a2, b2) == (1, 0, 1, 0):
                sb = PlanarSandwich(TB=g1, TT=g2, **common)
            elif (a1, b1, a2, b2) == (0, 1, 0, 1) and g1 == g2:
                sb = PlanarSandwichHot(F=g1, **common)
            elif (a1, b1, a2, b2) == (1, 0, 0, 1):
                sb = PlanarSandwichHalf(TB=g1, FT=g2, **common)
            else:
                return [], 0
        elif r == "RodBC3=mirrorBC4":
            # mirror image x -> L - x: end temperatures exchanged, the prescribed gradient changes sign
            k2 = dict(kw, alpha1=0, beta1=1, alpha2=1, beta2=0, TL=kw["TR"], TR=kw["TL"])
            if "gamma1" in kw:
                k2["gamma1"], k2["gamma2"] = -kw["gamma2"], kw["gamma1"]
            sb = G.cls_of("Rod1D")(**k2)
            ptsb = kw["L"] - pts
        elif r == "2D=3D":
            k2 = dict(kw, geometry=3)
            if "x_d" in kw:
                k2["x_d"] = (kw["x_d"][0], 0.0, kw["x_d"][1])        # same detonator, in the plane y = 0, axis = z
            sb = G.cls_of(fam)(**k2)
            ptsb = np.stack([pts[:, 0], 0.0 * pts[:, 0], pts[:, 1]], axis=1)
        elif r == "IGEOS=GenEOS":
            from exactpack.solvers.riemann.ep_riemann import GenEOS_Solver
            sb = GenEOS_Solver(num_x_pts=2001, num_int_pts=2001, **kw)
            res = "table"
        else:
            raise ValueError(r)
    sbv = G.call(sb, ptsb, tb)
    fb = G.fields(sbv)
    if r == "IGEOS=GenEOS":
        # "to the accuracy of the less accurate route": the tabulated solver integrates its fans on 2001 points and loses accuracy
        # towards a vacuum (2 - 4 % where the pressure has dropped by three decades); such states are left out of this route
        with np.errstate(all="ignore"):
            dense = (fa["pressure"] >= 0.02 * max(kw["pl"], kw["pr"])) & (fa["density"] >= 0.02 * max(kw["rl"], kw["rr"]))
        fa, fb = _keep(fa, fb, _off_table_jumps(sb, ptsb) & dense)
    if flip and "velocity" in fb:
        fb["velocity"] = -fb["velocity"]
    if r == "Noh=Cog19":
        fb.pop("temperature", None)
    return rel_events(tid, "Route", fam, res, fa, fb, {"route": r}), 2 * len(pts)


def scan(state_rs, groups, tid):
    """entry point used by scans.run_scans: state_rs = {"st": campaign state, "rs": relation}"""
    st, rs = state_rs["st"], state_rs["rs"]
    fn = {"Unit": unit, "Similar": similar, "Mirror": mirror, "Boost": boost, "Rigid": rigid, "Route": route}[rs["rel"]]
    ev, n = fn(st, rs, tid)
    return ev, {"points": len(ev), "jumps": 0, "evals": n}


def preload():
    G.preload()
