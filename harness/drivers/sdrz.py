"""Scan driver for the steady-detonation reaction zone: at every returned point behind the lead
shock the steady conservation relations hold (mass flux, Rayleigh line, energy with the heat
released so far), c^2 = gamma p / rho, ahead of the front the unreacted state."""
import math
import numpy as np

from .. import encode as E
from . import generic as G


def preload():
    import exactpack.solvers.sdrz.sdrz  # noqa: F401


def scan(state, groups, tid):
    from exactpack.solvers.sdrz.sdrz import SteadyDetonationReactionZone
    p = {k: G.value(v) for k, v in state["par"].items()}
    s = SteadyDetonationReactionZone(**p)
    D, rho0, gam = p["D"], p["rho_0"], p["gamma"]
    t = E.qf(state["t"])
    q = D * D / (2.0 * (gam * gam - 1.0))
    ev = [{"k": "Cfg", "tid": tid, "fam": "SDRZ", "groups": sorted(groups), "par": {"gamma": E.sl(gam), "gm1": E.sl(gam - 1)}, "geometry": 1}]
    stats = {"points": 0, "jumps": 0, "evals": 0, "pattern": None}
    x = np.linspace(0.02, 1.15, 41) * D * t
    sol = G.call(s, x, t)
    stats["evals"] += len(x)
    for i in range(len(x)):
        g = {n: float(sol[n][i]) for n in sol.dtype.names}
        fin = all(np.isfinite(list(g.values())))
        behind = x[i] < D * t * (1 - 1e-9)
        e_ = {"k": "Pt", "tid": tid, "reg": "zone" if behind else "ahead", "fin": bool(fin), "smooth": False, "x": E.sl(x[i]),
              "v": {"rho": E.sl(g["density"]), "p": E.sl(g["pressure"]), "c": E.sl(g["sound_speed"]), "u": E.sl(g["velocity"])} if fin else {},
              "bal": {}, "eq": {}, "ineq": {}}
        if fin and behind:
            w = D - g["velocity"]
            lam = g["reaction_progress"]
            e_["eq"] = {"mass-flux": E.e8([g["density"] * w, -rho0 * D]), "rayleigh-line": E.e8([g["pressure"], g["density"] * w * w, -rho0 * D * D]),
                        "energy": E.e8([gam / (gam - 1) * g["pressure"] / g["density"], 0.5 * w * w, -lam * q, -0.5 * D * D]),
                        "sound": E.e8([g["sound_speed"] ** 2, -gam * g["pressure"] / g["density"]])}
            e_["ineq"] = {"lambda<=1": E.e8([lam, -1.0], 1.0), "lambda>=0": E.e8([-lam, 0.0], 1.0)}
        elif fin:
            e_["eq"] = {"ahead": E.e8([abs(g["density"] - rho0) / rho0 + abs(g["pressure"]) / (rho0 * D * D) + abs(g["velocity"]) / D, 0.0], 1.0)}
        ev.append(e_)
        stats["points"] += 1
    ev.append({"k": "End", "tid": tid})
    return ev, stats
