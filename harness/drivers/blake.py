"""Scan driver for Blake (spherical cavity in an elastic medium): per point the term vectors
of the field laws listed in spec/Catalogue.tla FieldLaws("Blake")."""
import math
import numpy as np

from .. import encode as E
from . import generic as G


def preload():
    G.cls_of("Blake")


def scan(state, groups, tid):
    kw = G.kwargs(state)
    t = E.qf(state["t"])
    s = G.build("Blake", kw)
    lam, mu, K, M_ = float(s.lame_mod), float(s.shear_mod), float(s.bulk_mod), float(s.long_mod)
    rho, a, p0 = kw["ref_density"], kw["cavity_radius"], kw["pressure_scale"]
    cl = math.sqrt(M_ / rho)
    front = a + cl * t
    ev = [{"k": "Cfg", "tid": tid, "fam": "Blake", "groups": sorted(groups), "par": {}, "geometry": 3}]
    stats = {"points": 0, "jumps": 0, "evals": 0, "pattern": None}

    def F(r, tt):
        stats["evals"] += len(r)
        return G.call(s, np.asarray(r, float), tt)
    n = 24
    r = np.concatenate([[a], a + (front - a) * np.linspace(0.04, 0.96, n), front * np.array([1.02, 1.5])])
    f = F(r, t)
    h = 2e-4 * (front - a)
    ht = h / cl
    ups = {q: np.asarray(F(r + q * h, t)["displacement"], float) for q in (-2, -1, 1, 2)}
    uts = {q: np.asarray(F(r, t + q * ht)["displacement"], float) for q in (-2, -1, 1, 2)}
    u = np.asarray(f["displacement"], float)
    u_r = (8 * (ups[1] - ups[-1]) - (ups[2] - ups[-2])) / (12 * h)
    u_rr = (-ups[2] + 16 * ups[1] - 30 * u + 16 * ups[-1] - ups[-2]) / (12 * h * h)
    u_tt = (-uts[2] + 16 * uts[1] - 30 * u + 16 * uts[-1] - uts[-2]) / (12 * ht * ht)
    eps0 = p0 / M_                         # strain scale
    for i in range(len(r)):
        ri = r[i]
        g = {nm: float(f[nm][i]) for nm in f.dtype.names}
        fin = all(np.isfinite(v) for v in g.values())
        e_ = {"k": "Pt", "tid": tid, "reg": "he", "fin": bool(fin), "smooth": False, "x": E.sl(ri), "v": {}, "bal": {}, "eq": {}, "ineq": {}}
        if fin:
            er, eq, evol = g["strain_rr"], g["strain_qq"], g["strain_vol"]
            srr, sqq, p = g["stress_rr"], g["stress_qq"], g["pressure"]
            if ri > front:
                e_["eq"]["zero-ahead"] = E.e8([abs(g["displacement"]) / a + abs(er) + abs(srr) / p0 + abs(g["density"] - rho) / rho, 0.0], eps0)
            else:
                e_["eq"].update({
                    "strain_qq=u/r": E.e8([eq, -g["displacement"] / ri], eps0),
                    "strain_vol": E.e8([evol, -er, -2 * eq], eps0),
                    "curr_posn": E.e8([g["curr_posn"], -ri, -g["displacement"]], a),
                    "density": E.e8([g["density"], g["density"] * evol, -rho], rho),
                    "hooke_rr": E.e8([srr, -(lam + 2 * mu) * er, -2 * lam * eq], p0),
                    "hooke_qq": E.e8([sqq, -lam * er, -2 * (lam + mu) * eq], p0),
                    "pressure": E.e8([p, srr / 3, 2 * sqq / 3], p0),
                    "dev_rr": E.e8([g["stress_dev_rr"], -srr, -p], p0),
                    "dev_qq": E.e8([g["stress_dev_qq"], -sqq, -p], p0),
                    "stress_diff": E.e8([g["stress_diff"], -abs(srr - sqq)], p0)})
                if i == 0:
                    e_["eq"]["cavity"] = E.e8([srr, p0], p0)
                elif a + 3 * h < ri < front - 3 * h - 3 * cl * ht:
                    e_["eq"]["strain_rr=du/dr"] = E.e8([er, -u_r[i]], eps0)
                    e_["eq"]["wave"] = E.e8([u_tt[i], -cl * cl * u_rr[i], -cl * cl * 2 * u_r[i] / ri, cl * cl * 2 * u[i] / ri ** 2],
                                            cl * cl * eps0 / a)
                    e_["smooth"] = True
        ev.append(e_)
        stats["points"] += 1
    ev.append({"k": "End", "tid": tid})
    return ev, stats
