"""Scan driver for the Guderley converging / reflected shock.  The call takes a time t in which the shock reaches the
centre at t = 0.750024322 (documented in ramsey.py: t = 0.750024322 (t_L + 1) with t_L the time of the similarity
solution); the driver measures every balance in the accepted time t, and the same balances with time derivatives /
shock speeds rescaled to t_L (suffix L), see Profile.PdeClauses."""
import math
import numpy as np

from .. import encode as E
from .. import measure as M
from . import generic as G

FACTOR = 0.750024322
NAMES = {"rho": "density", "u": "velocity", "p": "pressure", "c": "sound_speed", "e": "specific_internal_energy"}


def preload():
    import exactpack.solvers.guderley  # noqa: F401


def scan(state, groups, tid):
    from exactpack.solvers.guderley import Guderley
    p = {k: G.value(v) for k, v in state["par"].items()}
    t = E.qf(state["t"])
    j, gam, rho0 = int(p["geometry"]), float(p["gamma"]), float(p["rho0"])
    k = j - 1
    s = Guderley(geometry=j, gamma=gam, rho0=rho0)
    stats = {"points": 0, "jumps": 0, "evals": 0, "pattern": "converging" if t < FACTOR else "reflected"}

    def F(r, tt):
        r = np.atleast_1d(np.asarray(r, float))
        stats["evals"] += r.size
        so = G.call(s, r, tt)
        return {a: np.asarray(so[b], float) for a, b in NAMES.items()}

    def locate(tt):
        grid = np.linspace(0.02, 2.5, 500)
        rho = F(grid, tt)["rho"]
        i = int(np.argmax(np.abs(np.diff(np.log(rho)))))
        lo, hi = grid[i], grid[i + 1]
        for _ in range(8):
            xs = np.linspace(lo, hi, 18)
            v = F(xs, tt)["rho"]
            q = int(np.argmax(np.abs(np.diff(np.log(v)))))
            lo, hi = xs[q], xs[q + 1]
        return 0.5 * (lo + hi)
    dt = 2e-3
    rs = locate(t)
    rh = "RH" in groups
    speed = (locate(t + dt) - locate(t - dt)) / (2 * dt) if rh else 0.0
    conv = t < FACTOR
    regs = ("pre", "post") if conv else ("inner", "outer")
    par = {"gm1": E.sl(gam - 1), "gamma": E.sl(gam)}
    ev = [{"k": "Cfg", "tid": tid, "fam": "Guderley", "groups": sorted(groups), "par": par, "geometry": j}]
    # ---- smooth points, both sides
    inner = [f * rs for f in ((0.5,) if conv else (0.3, 0.6, 0.85))]
    outer = [rs + f * (2.2 - rs) for f in (0.1, 0.3, 0.55, 0.8)]
    pts = [(r, regs[0]) for r in inner] + [(r, regs[1]) for r in outer]
    pde = "PDE" in groups
    if pde:
        hts = (-2, -1, 1, 2)
        ht = 1e-3
        allr, index = [], []
        for r0, reg in pts:
            h = 1e-3 * r0
            index.append((len(allr), h))
            allr += [r0 + q * h for q in (-2, -1, 0, 1, 2)]
        allr = np.array(allr)
        f0 = F(allr, t)
        ft = {q: F(np.array([r for r, _ in pts]), t + q * ht) for q in hts}
    else:
        f0 = F(np.array([r for r, _ in pts]), t)

    def emit(n, r0, reg):
        if pde:
            o, h = index[n]
            v = {a: float(f0[a][o + 2]) for a in f0}
        else:
            v = {a: float(f0[a][n]) for a in f0}
        fin = all(math.isfinite(x) for x in v.values())
        e_ = {"k": "Pt", "tid": tid, "reg": reg, "fin": bool(fin), "smooth": bool(pde), "x": E.sl(r0), "v": {a: E.sl(x) for a, x in v.items()} if fin else {}, "bal": {}}
        if pde and fin:
            def dr(a):
                return M.d1(f0[a][o], f0[a][o + 1], f0[a][o + 3], f0[a][o + 4], h)

            def dtt(a):
                return M.d1(ft[-2][a][n], ft[-1][a][n], ft[1][a][n], ft[2][a][n], ht)
            rho, u, pr, e = v["rho"], v["u"], v["p"], v["e"]
            S = abs(u) + math.sqrt(abs(e)) + 1e-300
            fl = (1e-3 * rho * S / r0, 1e-3 * S * S / r0, 1e-3 * S ** 3 / r0)
            for sfx, fac in (("", 1.0), ("L", FACTOR)):
                e_["bal"]["mass" + sfx] = E.e8([fac * dtt("rho"), u * dr("rho"), rho * dr("u"), k * rho * u / r0], fl[0])
                e_["bal"]["mom" + sfx] = E.e8([fac * dtt("u"), u * dr("u"), dr("p") / rho], fl[1])
                e_["bal"]["ener" + sfx] = E.e8([fac * dtt("e"), u * dr("e"), pr / rho * dr("u"), pr / rho * k * u / r0], fl[2])
        ev.append(e_)
        stats["points"] += 1
    for n, (r0, reg) in enumerate(pts):
        if reg == regs[1] and (n == 0 or pts[n - 1][1] != reg):      # (without the group RH the speed is not measured and the balances are not judged)
            # ---- the shock, between the two regions
            eps = 1e-7
            L = {a: float(x[0]) for a, x in F([rs * (1 - eps)], t).items()}
            R = {a: float(x[0]) for a, x in F([rs * (1 + eps)], t).items()}
            ahead = "L" if conv else "R"                 # converging: into the gas at rest inside; reflected: outwards into the inflow
            bal = {}
            for sfx, fac in (("", 1.0), ("L", 1.0 / FACTOR)):
                # a speed measured in the accepted time t; in the solution's own time it is smaller by FACTOR (dt = FACTOR dt_L):
                # equivalently the states' velocities count 1/FACTOR more against it
                sp_ = speed * (1.0 if sfx == "" else FACTOR)
                wl, wr = L["u"] - sp_, R["u"] - sp_
                ml, mr = L["rho"] * wl, R["rho"] * wr
                bal[sfx] = {"mass": E.e8([ml, -mr]), "mom": E.e8([ml * wl, L["p"], -mr * wr, -R["p"]]),
                            "ener": E.e8([ml * (L["e"] + wl * wl / 2), L["p"] * wl, -mr * (R["e"] + wr * wr / 2), -R["p"] * wr])}
            ev.append({"k": "Jump", "tid": tid, "kind": "shock", "ahead": ahead, "bal": bal[""], "balL": bal["L"], "s": E.sl(speed), "x": E.sl(rs),
                       "L": {a: E.sl(x) for a, x in L.items()}, "R": {a: E.sl(x) for a, x in R.items()}})
            stats["jumps"] += 1
        emit(n, r0, reg)
    ev.append({"k": "End", "tid": tid})
    return ev, stats
