"""Scan driver for the black-box-EOS Noh solver: for an EOS object of the library the shocked
state comes from a Newton solve; the scan checks the EOS object's own P(rho, e) on the returned
fields (C03), the jump conditions at the shock located from the fields (C02), and repeats both
after the user has re-tuned the EOS through its setter and re-solved (a sequence of operations
on one solver object)."""
import contextlib
import io
import math
import warnings

import numpy as np

from .. import encode as E
from .. import measure as M
from . import generic as G


def preload():
    import exactpack.solvers.nohblackboxeos.blackboxnoh  # noqa: F401


def make_eos(kind, c):
    import exactpack.solvers.nohblackboxeos.equations_of_state.eos_library as L
    if kind == "ideal":
        return L.ideal_gas_eos(c["gamma"]), None
    if kind == "stiffened":
        e = L.stiffened_gas_eos(c["gamma"], c["c1"], 1.0)
        return e, lambda: e.set_new_sound_speed(0.7 * c["c1"])
    if kind == "noble_abel":
        e = L.noble_abel_eos(c["gamma"], c["c1"] / 50.0)
        return e, lambda: e.set_new_co_volume(c["c1"] / 25.0)
    if kind == "carnahan_starling":
        e = L.carnahan_starling_eos(c["gamma"], c["c1"] / 50.0)
        return e, lambda: e.set_new_co_volume(c["c1"] / 25.0)
    raise ValueError(kind)


def one_scan(solver, eos, kw, t, tid, groups, label):
    sym, rho0, u0 = kw["symmetry"], kw["rho0"], kw["u0"]
    F = M.Evaluator(solver)
    D = float(solver.shock_speed)
    a, b = 0.05 * abs(D) * t, 4.0 * abs(D) * t
    jumps = M.locate_jumps(F, t, a, b, grid=np.geomspace(a, b, 400))
    ev = [{"k": "Cfg", "tid": tid, "fam": "BBNoh", "groups": sorted(groups), "par": {}, "geometry": sym + 1, "step": label}]
    stats = {"points": 0, "jumps": len(jumps)}
    if len(jumps) != 1:
        ev.append({"k": "Pt", "tid": tid, "reg": "unexpected-%d-jumps" % len(jumps), "fin": True, "smooth": False, "x": E.sl(1.0), "v": {}, "bal": {}})
        ev.append({"k": "End", "tid": tid})
        return ev, stats, F.points
    xs = jumps[0]
    dt_ = 1e-4 * t
    xm = M.locate_jumps(F, t - dt_, xs * 0.99, xs * 1.01, n=40)
    xp = M.locate_jumps(F, t + dt_, xs * 0.99, xs * 1.01, n=40)
    r = np.array([0.1, 0.5, 0.9, 0.999]) * xs
    r = np.concatenate([r, xs * np.array([1.001, 1.3, 2.5])])
    f = F(r, t)
    for i in range(len(r)):
        post = r[i] < xs
        fin = all(np.isfinite(f[k][i]) for k in f)
        bal = {}
        # the EOS object's own closure; ahead of the shock only where the inflow state is an EOS state
        # (planar symmetry, or the ideal gas for which e(rho, 0) = 0 whatever rho)
        if fin and (post or sym == 0 or kw["eos"] == "ideal"):
            pe = float(eos.P(f["rho"][i], f["e"][i]))
            bal["eos"] = E.e8([f["p"][i], -pe], max(abs(pe), rho0 * u0 * u0 * 1e-3))
        ev.append({"k": "Pt", "tid": tid, "reg": "post" if post else "pre", "fin": bool(fin), "smooth": False, "x": E.sl(r[i]),
                   "v": {k: E.sl(f[k][i]) for k in f} if fin else {}, "bal": bal})
        stats["points"] += 1
        if i == 3 and len(xm) == 1 and len(xp) == 1:
            s = (xp[0] - xm[0]) / (2 * dt_)
            g = F(np.array([xs * (1 - 1e-8), xs * (1 + 1e-8)]), t)
            L = {k: float(v[0]) for k, v in g.items()}; R = {k: float(v[1]) for k, v in g.items()}
            wl, wr = L["u"] - s, R["u"] - s
            ml, mr = L["rho"] * wl, R["rho"] * wr
            ev.append({"k": "Jump", "tid": tid, "kind": "shock", "ahead": "L" if (ml + mr) > 0 else "R",
                       "bal": {"mass": E.e8([ml, -mr]), "mom": E.e8([ml * wl, L["p"], -mr * wr, -R["p"]]),
                               "ener": E.e8([ml * (L["e"] + wl * wl / 2), L["p"] * wl, -mr * (R["e"] + wr * wr / 2), -R["p"] * wr])},
                       "s": E.sl(s), "x": E.sl(xs), "L": {k: E.sl(v) for k, v in L.items()}, "R": {k: E.sl(v) for k, v in R.items()},
                       "dpos": E.e8([s, -D], abs(D))})
    ev.append({"k": "End", "tid": tid})
    return ev, stats, F.points


def scan(state, groups, tid):
    from exactpack.solvers.nohblackboxeos.blackboxnoh import NohBlackBoxEos
    p = {k: G.value(v) for k, v in state["par"].items()}
    eos, retune = make_eos(p["eos"], p)
    sym, rho0, u0 = p["symmetry"], p["rho0"], p["u0"]
    t = E.qf(state["t"])
    ic = {"density": rho0, "velocity": u0, "pressure": 0, "symmetry": sym}
    with contextlib.redirect_stdout(io.StringIO()), warnings.catch_warnings():
        warnings.simplefilter("ignore")
        s = NohBlackBoxEos(eos, ic, geometry=sym + 1, rho0=rho0, u0=u0)
        g = p["gamma"]
        rg = rho0 * ((g + 1) / (g - 1)) ** (sym + 1) * 0.7
        if p["eos"] in ("noble_abel", "carnahan_starling"):
            rg = min(rg, 0.5 / (p["c1"] / 25.0))
        s.set_new_solver_initial_guess([rg, 0.45 * u0 * u0, 0.6 * abs(u0) * (g - 1)])
        s.solve_jump_conditions()
    kw = dict(p)
    ev, st, n = one_scan(s, eos, kw, t, tid, groups, "solved")
    stats = {"points": st["points"], "jumps": st["jumps"], "evals": n, "pattern": p["eos"]}
    if retune is not None:
        with contextlib.redirect_stdout(io.StringIO()), warnings.catch_warnings():
            warnings.simplefilter("ignore")
            retune()
            s.solve_jump_conditions()
        ev2, st2, n2 = one_scan(s, eos, kw, t, tid, groups, "retuned+solved")
        ev += ev2
        stats["points"] += st2["points"]; stats["jumps"] += st2["jumps"]; stats["evals"] += n2
    return ev, stats
