"""Scan driver for the Reinicke / Meyer-ter-Vehn problem (heat front ahead of an isothermal shock).  The solver
ignores its time argument: the position of the heat front rf is the clock (rf = xi_f zeta t^alpha, documented), so time
derivatives are taken through rf.  Fields are converted back from cgs to the problem's own units (jerk, keV, sh) in
which the conductivity coefficient chi0 is given."""
import math
import numpy as np

from .. import encode as E
from .. import measure as M
from . import generic as G


def preload():
    import exactpack.solvers.rmtv  # noqa: F401


def d1(a, b, c, d, h):
    return (8 * (c - b) - (d - a)) / (12 * h)


def scan(state, groups, tid):
    from exactpack.solvers.rmtv import Rmtv
    p = {k: G.value(v) for k, v in state["par"].items()}
    rf = float(p["rf"])
    kw = dict(chi0=float(p["chi0"]), g0=float(p["g0"]), bigamma=float(p["bigamma"]))
    ref = Rmtv(rf=rf, **kw)
    a, b, gam, Gam, chi0, g0 = ref.aval, ref.bval, ref.gamma, ref.bigamma, ref.chi0, ref.g0
    k = 3.0                                                    # spherical (documented)
    alpha = (2 * b - 2 * a + 1) / (2 * b - (k + 2) * a + k)
    kappa = -((2 * b - 1) * k + 2) / (2 * b - 2 * a + 1)
    zeta = (((0.5 * ref.beta0 * Gam ** (b + 1) * g0 ** (1 - a) / chi0) ** (1 / (2 * b - 1))) / alpha) ** alpha
    time = (rf / zeta / ref.xif) ** (1 / alpha)
    rs_doc = rf * ref.xis / ref.xif                            # the shock sits at the dimensionless position xi_s
    speed = alpha * rs_doc / time
    drfdt = alpha * rf / time
    stats = {"points": 0, "jumps": 0, "evals": 0, "pattern": None}
    solvers = {}

    def F(r, q=0.0):
        """fields at positions r when the heat front is at rf + q"""
        key = round(q, 15)
        if key not in solvers:
            solvers[key] = Rmtv(rf=rf + q, **kw)
        r = np.atleast_1d(np.asarray(r, float))
        stats["evals"] += r.size
        so = G.call(solvers[key], r, 0.0)
        return {"rho": np.asarray(so["density"], float), "u": np.asarray(so["velocity"], float) / 1e8, "e": np.asarray(so["energy"], float) / 1e16,
                "p": np.asarray(so["pressure"], float) / 1e16, "T": np.asarray(so["temperature"], float) / 1e3}
    from fractions import Fraction
    kap = Fraction(kappa).limit_denominator(1000)              # -19/9 for the tri-lab exponents
    par = {"gm1": E.sl(gam - 1), "gamma": E.sl(gam), "bigamma": E.sl(Gam), "rho0": E.sl(g0), "omega": E.q(-kap)}
    ev = [{"k": "Cfg", "tid": tid, "fam": "RMTV", "groups": sorted(groups), "par": par, "geometry": 3}]
    # ---- locate the shock from the fields (largest relative density step on a fine sweep, then bisection)
    sweep = np.linspace(0.05 * rf, 0.999 * rf, 400)
    rho = F(sweep)["rho"]
    i = int(np.argmax(np.abs(np.diff(np.log(rho)))))
    lo, hi = sweep[i], sweep[i + 1]
    rl, rh = rho[i], rho[i + 1]
    for _ in range(50):
        m = 0.5 * (lo + hi)
        v = F([m])["rho"][0]
        if abs(math.log(v / rl)) < abs(math.log(v / rh)):
            lo = m
        else:
            hi = m
    rs = 0.5 * (lo + hi)

    def point(r0, reg):
        band = min(abs(r0 - rs), abs(rf - r0), r0)
        h = min(2e-3 * r0, band / 6.0)
        hf = 1e-3 * rf
        rr = r0 + h * np.arange(-4, 5)
        Gd = F(rr)
        Tm = [F([r0], q * hf) for q in (-2, -1, 1, 2)]

        def dt(n):
            return d1(Tm[0][n][0], Tm[1][n][0], Tm[2][n][0], Tm[3][n][0], hf) * drfdt

        def dr(n, i=4):
            return d1(Gd[n][i - 2], Gd[n][i - 1], Gd[n][i + 1], Gd[n][i + 2], h)
        q = [rr[i] ** 2 * chi0 * Gd["rho"][i] ** a * Gd["T"][i] ** b * dr("T", i) for i in range(2, 7)]
        divq = d1(q[0], q[1], q[3], q[4], h) / (Gd["rho"][4] * r0 ** 2)
        f = {n: float(Gd[n][4]) for n in Gd}
        rho_, u, pr = f["rho"], f["u"], f["p"]
        S = abs(u) + math.sqrt(abs(f["e"]))
        fin = all(math.isfinite(x) for x in f.values())
        e_ = {"k": "Pt", "tid": tid, "reg": reg, "fin": bool(fin), "smooth": True, "x": E.sl(r0), "v": {n: E.sl(x) for n, x in f.items()} if fin else {}, "bal": {}}
        if fin and "PDE" in groups:
            e_["bal"] = {"mass": E.e8([dt("rho"), u * dr("rho"), rho_ * dr("u"), 2 * rho_ * u / r0], 1e-3 * rho_ * S / r0),
                         "mom": E.e8([dt("u"), u * dr("u"), dr("p") / rho_], 1e-3 * S * S / r0),
                         "ener": E.e8([dt("e"), u * dr("e"), -(pr / rho_ ** 2) * dt("rho"), -(pr / rho_ ** 2) * u * dr("rho"), -divq], 1e-3 * S ** 3 / r0)}
        ev.append(e_)
        stats["points"] += 1
    pde = "PDE" in groups
    for fr in ((0.3, 0.6, 0.85) if pde else (0.2, 0.4, 0.6, 0.8, 0.95)):
        if pde:
            point(fr * rs, "shocked")
        else:
            f = {n: float(x[0]) for n, x in F([fr * rs]).items()}
            ev.append({"k": "Pt", "tid": tid, "reg": "shocked", "fin": all(math.isfinite(x) for x in f.values()), "smooth": False, "x": E.sl(fr * rs),
                       "v": {n: E.sl(x) for n, x in f.items()}, "bal": {}})
            stats["points"] += 1
    # ---- the isothermal shock
    eps = 1e-9
    L = {n: float(x[0]) for n, x in F([rs * (1 - eps)]).items()}
    R = {n: float(x[0]) for n, x in F([rs * (1 + eps)]).items()}
    wl, wr = L["u"] - speed, R["u"] - speed
    ml, mr = L["rho"] * wl, R["rho"] * wr
    ev.append({"k": "Jump", "tid": tid, "kind": "isoshock", "ahead": "R", "s": E.sl(speed), "x": E.sl(rs),
               "bal": {"mass": E.e8([ml, -mr]), "mom": E.e8([ml * wl, L["p"], -mr * wr, -R["p"]])},
               "cont": {"T": E.e8([L["T"], -R["T"]]), "pos": E.e8([rs, -rs_doc])},
               "L": {n: E.sl(v) for n, v in L.items()}, "R": {n: E.sl(v) for n, v in R.items()}})
    stats["jumps"] += 1
    for fr in ((0.2, 0.5, 0.8) if pde else (0.1, 0.3, 0.5, 0.7, 0.9)):
        r0 = rs + fr * (rf - rs)
        if pde:
            point(r0, "heated")
        else:
            f = {n: float(x[0]) for n, x in F([r0]).items()}
            ev.append({"k": "Pt", "tid": tid, "reg": "heated", "fin": all(math.isfinite(x) for x in f.values()), "smooth": False, "x": E.sl(r0),
                       "v": {n: E.sl(x) for n, x in f.items()}, "bal": {}})
            stats["points"] += 1
    # ---- the heat front: T ~ (1 - xi/xi_f)^(1/b) drops to zero continuously but with infinite slope (6 % of the shock temperature
    # is left at a relative distance of 1e-7): nothing that a tolerance could decide; the cold state ahead is compared below
    ev.append({"k": "Jump", "tid": tid, "kind": "cont", "ahead": "R", "s": E.sl(drfdt), "x": E.sl(rf), "bal": {}, "L": {}, "R": {}})
    for fr in (1.001, 1.1, 1.5):
        f = {n: float(x[0]) for n, x in F([fr * rf]).items()}
        ev.append({"k": "Pt", "tid": tid, "reg": "cold", "fin": True, "smooth": False, "x": E.sl(fr * rf),
                   "v": {n: E.sl(x) for n, x in f.items()}, "bal": {}, "ambient": True})
        stats["points"] += 1
    ev.append({"k": "End", "tid": tid})
    return ev, stats
