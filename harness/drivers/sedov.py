"""Scan driver for Sedov.  Observation rules (DESIGN.md section 6): the solver
tabulates the solution on linspace(0, max(r), 3001) and interpolates linearly,
so a request made of exactly those nodes is exact; with max(r) = the reported
shock radius the last node carries the post-shock state.  Below the radius
where the similarity variable has converged the solver interpolates to the
origin (documented: "should not be trusted"); that stretch is detected from the
fields (exactly linear in r) and excluded from the smooth-region laws."""
import contextlib
import io
import math
import warnings

import numpy as np

from .. import encode as E
from .. import measure as M
from . import generic as G

NPTS = 3001


def preload():
    G.cls_of("Sedov")


def scan(state, groups, tid):
    kw = G.kwargs(state)
    t = E.qf(state["t"])
    j, gam, w = kw["geometry"], kw["gamma"], kw["omega"]
    k = j - 1
    solver = G.build("Sedov", kw)
    F = M.Evaluator(solver)
    stats = {"points": 0, "jumps": 0, "pattern": getattr(solver, "solution_type", None), "uclass": getattr(solver, "special_singularity", "")}
    # reported shock radius at t and t -/+ dt (an attribute written by the call)
    def reported(tt):
        F(np.array([1.0]), tt)
        return float(solver.r2)
    dt_ = 1e-4 * t
    r2, r2m, r2p = reported(t), reported(t - dt_), reported(t + dt_)
    s = (r2p - r2m) / (2 * dt_)
    nodes = np.linspace(0.0, r2, NPTS)
    f = F(nodes[1:], t)                     # every node exact; last node = post-shock state
    r = nodes[1:]
    ahead_r = np.array([r2 * (1 + 1e-9), 1.3 * r2, 2.0 * r2])
    fa = F(ahead_r, t)                      # first point: max(r) grid -> interpolation in the last cell only for the others
    fa1 = F(ahead_r[:1], t)                 # node-exact ambient state just ahead of the shock
    par = {"gm1": E.sl(gam - 1), "gamma": E.sl(gam), "rho0": E.sl(kw["rho0"]), "omega": E.q(E.qfrac(state["par"]["omega"]))}
    ev = [{"k": "Cfg", "tid": tid, "fam": "Sedov", "groups": sorted(groups), "par": par, "geometry": j}]
    # the stretch next to the origin that the solver fills by linear interpolation
    lin = np.ones(len(r) - 2, bool)
    for nm in ("rho", "u", "p"):          # interpolated stretch: every field exactly linear in r
        a = f[nm]
        lin &= np.abs(a[2:] - 2 * a[1:-1] + a[:-2]) <= 1e-11 * np.abs(a[1:-1]) + 1e-300
    ic = 0
    while ic < len(lin) and lin[ic]:
        ic += 1
    r_lin = r[min(ic + 2, len(r) - 1)]
    vac = stats["pattern"] == "vacuum"
    rvv = float(getattr(solver, "rvv", 0.0)) if vac else 0.0
    lo = max(r_lin * 1.05, rvv * 1.05, 0.5 * r2)
    # ---- smooth interior points: a subset of nodes
    idx = [i for i in np.linspace(0, len(r) - 1, 60).astype(int) if lo < r[i] < 0.995 * r2]
    idx = sorted(set(idx))[:14]
    terms = None
    if "PDE" in groups and idx:
        h = r[1] - r[0]
        ht = 1e-3 * t
        fm2, fm1, fp1, fp2 = (F(r, t + q * ht) for q in (-2, -1, 1, 2))
        def dtn(name, i):
            return M.d1(fm2[name][i], fm1[name][i], fp1[name][i], fp2[name][i], ht)
        def drn(name, i):
            a = f[name]
            return M.d1(a[i - 2], a[i - 1], a[i + 1], a[i + 2], h)
        terms = {}
        band = 3 * s * ht + 3 * h
        for i in idx:
            if i < 2 or i > len(r) - 3:
                continue
            ri, rh_, u, p, e = r[i], f["rho"][i], f["u"][i], f["p"][i], f["e"][i]
            S = abs(u) + math.sqrt(abs(e))
            terms[i] = ({"mass": E.e8([dtn("rho", i), u * drn("rho", i), rh_ * drn("u", i), k * rh_ * u / ri], 1e-3 * rh_ * S / ri),
                         "mom": E.e8([dtn("u", i), u * drn("u", i), drn("p", i) / rh_], 1e-3 * S * S / ri),
                         "ener": E.e8([dtn("e", i), u * drn("e", i), p / rh_ * drn("u", i), p / rh_ * k * u / ri], 1e-3 * S ** 3 / ri)},
                        bool(r2m - ri > band))
    if vac:
        ev.append({"k": "Pt", "tid": tid, "reg": "vacuum", "fin": True, "smooth": False, "x": E.sl(0.5 * rvv),
                   "v": {kk: E.sl(v[0]) for kk, v in F(np.array([0.5 * rvv]), t).items() if kk in ("rho", "u", "p")}, "bal": {}})
        stats["points"] += 1
    for i in idx + [len(r) - 1]:
        fin = all(np.isfinite(f[kk][i]) for kk in f)
        e_ = {"k": "Pt", "tid": tid, "reg": "interior", "fin": bool(fin), "smooth": False, "x": E.sl(r[i]),
              "v": {kk: E.sl(f[kk][i]) for kk in f} if fin else {}, "bal": {}}
        if terms is not None and i in terms:
            e_["bal"], e_["smooth"] = terms[i]
        ev.append(e_)
        stats["points"] += 1
    # ---- the shock
    L = {kk: float(f[kk][-1]) for kk in f}
    R = {kk: float(fa1[kk][0]) for kk in fa1}
    for d in (L, R):
        for kk in d:
            if not np.isfinite(d[kk]):
                d[kk] = 0.0          # e, c are 0/0 in the cold gas ahead
    wl, wr = L["u"] - s, R["u"] - s
    ml, mr = L["rho"] * wl, R["rho"] * wr
    ev.append({"k": "Jump", "tid": tid, "kind": "shock", "ahead": "L" if (ml + mr) > 0 else "R",
               "bal": {"mass": E.e8([ml, -mr]), "mom": E.e8([ml * wl, L["p"], -mr * wr, -R["p"]]),
                       "ener": E.e8([ml * (L["e"] + wl * wl / 2), L["p"] * wl, -mr * (R["e"] + wr * wr / 2), -R["p"] * wr])},
               "s": E.sl(s), "x": E.sl(r2), "L": {kk: E.sl(v) for kk, v in L.items()}, "R": {kk: E.sl(v) for kk, v in R.items()}})
    stats["jumps"] += 1
    # ---- ambient state ahead of the shock
    for q in range(len(ahead_r)):
        src = fa1 if q == 0 else fa
        v = {kk: (float(src[kk][q if q else 0]) if np.isfinite(src[kk][q if q else 0]) else 0.0) for kk in src}
        ev.append({"k": "Pt", "tid": tid, "reg": "ambient", "fin": True, "smooth": False, "x": E.sl(ahead_r[q]),
                   "v": {kk: E.sl(x) for kk, x in v.items()}, "bal": {}, "ambient": True})
        stats["points"] += 1
    # ---- integrals behind the shock (Simpson on the exact nodes; dV = r^(j-1) dr per unit solid angle factor)
    if "INT" in groups:
        geo = {1: 1.0, 2: 2 * math.pi, 3: 4 * math.pi}[j]
        rr = nodes
        rho_n = np.concatenate([[0.0], f["rho"]]); u_n = np.concatenate([[0.0], f["u"]]); p_n = np.concatenate([[f["p"][0]], f["p"]])
        wgt = rr ** (j - 1)
        from scipy.integrate import simpson
        ed = (0.5 * rho_n * u_n ** 2 + p_n / (gam - 1)) * wgt
        md = rho_n * wgt

        def integrate(d, step=1):
            """Simpson on the exact nodes; in the vacuum type the density is an integrable power-law
            singularity at the reported vacuum boundary: the stretch next to it is integrated from a
            power-law fit to the first nodes outside the boundary"""
            x, y = rr[::step], d[::step]
            if not vac:
                # a density exponent close to the geometry index leaves an integrable power-law singularity at the origin
                # (planar, omega = 0.8: rho ~ r^-0.7): that head is integrated from a power-law fit to the first nodes
                m = 6
                yy = np.abs(y[1:m + 1])
                if np.all(yy > 0):
                    a, lnA = np.polyfit(np.log(x[1:m + 1]), np.log(yy), 1)
                    if -0.98 < a < -0.05:
                        return math.exp(lnA) * x[m] ** (a + 1) / (a + 1) + simpson(y[m:], x=x[m:])
                return simpson(y, x=x)
            i0 = int(np.searchsorted(x, rvv)) + 1          # first node safely outside the boundary
            i1 = i0 + 6
            sx = x[i0:i1 + 1] - rvv
            yy = np.abs(y[i0:i1 + 1])
            if np.any(yy <= 0) or np.any(sx <= 0):
                return simpson(y, x=x)
            a, lnA = np.polyfit(np.log(sx), np.log(yy), 1)
            if a <= -0.98:
                return simpson(y, x=x)
            s1 = x[i1] - rvv
            head = math.exp(lnA) * s1 ** (a + 1) / (a + 1)
            return head + simpson(y[i1:], x=x[i1:])
        en, ms = integrate(ed) * geo, integrate(md) * geo
        # quadrature uncertainty: difference to the same rule on every second node (the nodes are all
        # the exact data there is)
        en2, ms2 = integrate(ed, 2) * geo, integrate(md, 2) * geo
        m0 = kw["rho0"] * r2 ** (j - w) / (j - w) * geo
        slack = {"energy": int(min(10**8, round(1e8 * abs(en - en2) / max(abs(en), kw["eblast"])))),
                 "mass": int(min(10**8, round(1e8 * abs(ms - ms2) / max(abs(ms), m0))))}
        ev.append({"k": "Int", "tid": tid, "window_ok": True, "slack": slack,
                   "bal": {"energy": E.e8([en, -kw["eblast"]]), "mass": E.e8([ms, -m0])}})
    ev.append({"k": "End", "tid": tid})
    stats["evals"] = F.points
    return ev, stats
