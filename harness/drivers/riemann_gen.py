"""Scan driver for the general-EOS Riemann solver (ideal-gas data and JWL explosives).  One public
call costs seconds (the P-U curves are re-tabulated), so the scan uses the full internal profile that
the call leaves on the solver object (attributes x, p, r, u, e - the documented outputs of the
wrapper) at three times t/2, t, 3t/2.  Shocks are smeared over one internal cell (linear ramp):
a transition of at most three cells is a discontinuity located at the middle of the ramp."""
import contextlib
import io
import math
import warnings

import numpy as np

from .. import encode as E
from . import generic as G

NAMES = ("p", "rho", "u", "e")


def preload():
    import os
    os.environ.setdefault("MPLBACKEND", "Agg")
    import exactpack.solvers.riemann.ep_riemann  # noqa: F401


def jwl_f(rho, g, k):
    G1 = g - 1.0
    R1r, R2r = k["R1"] * k["r0"] / rho, k["R2"] * k["r0"] / rho
    return k["A"] * (1.0 - G1 / R1r) * np.exp(-R1r) + k["B"] * (1.0 - G1 / R2r) * np.exp(-R2r)


def profile(solver, xq, t):
    with warnings.catch_warnings():
        warnings.simplefilter("ignore")
        with np.errstate(all="ignore"), contextlib.redirect_stdout(io.StringIO()):
            solver(np.asarray(xq, float), t)
    return {"x": np.asarray(solver.x, float), "p": np.asarray(solver.p, float), "rho": np.asarray(solver.r, float),
            "u": np.asarray(solver.u, float), "e": np.asarray(solver.e, float)}


def structure(P, flat=1e-11):
    x = P["x"]
    n = len(x)
    scale = {k: max(np.max(np.abs(P[k])), 1e-300) for k in NAMES}
    same = np.ones(n - 1, bool)
    for k in NAMES:
        same &= np.abs(np.diff(P[k])) <= flat * scale[k]
    runs, i = [], 0
    while i < n - 1:
        if same[i]:
            j = i
            while j < n - 1 and same[j]:
                j += 1
            if j - i >= 6:
                runs.append((i, j))
            i = j
        else:
            i += 1
    return runs, scale


def scan(state, groups, tid):
    from exactpack.solvers.riemann.ep_riemann import GenEOS_Solver
    par = {k: G.value(v) for k, v in state["par"].items()}
    t = E.qf(state["t"])
    jwl = state["fam"] == "RiemannJWL"
    kw = dict(par)
    if jwl:
        sc_r, sc_p = kw.pop("rscale"), kw.pop("pscale")
        base = {"Shyue": dict(xmin=0.0, xd0=50.0, xmax=100.0, rl=1.7, ul=0.0, pl=10.0, gl=1.25, rr=1.0, ur=0.0, pr=0.5, gr=1.25,
                              A=8.545, B=0.205, R1=4.6, R2=1.35, r0=1.84, e0=0.0),
                "Lee": dict(xmin=0.0, xd0=50.0, xmax=100.0, rl=0.9525, ul=0.0, pl=1.0, gl=1.8938, rr=3.81, ur=0.0, pr=2.0, gr=1.8938,
                            A=632.1, B=-0.04472, R1=11.3, R2=1.13, r0=1.905, e0=0.0)}[kw.pop("case")]
        kw = dict(base, problem="JWL")
        kw["rl"] *= sc_r; kw["pr"] *= sc_p
        kw["ul"] = par.get("ul", 0.0)
    res = par.get("tables", 2001) if "tables" in par else 2001
    kw.pop("tables", None)
    kw.update(num_x_pts=res, num_int_pts=res)
    if not jwl:
        # the table window follows the membrane and grows with the time (self-similar: the same number of cells per wave);
        # for the standard membrane at t = 0.3 it is the documented default [0, 1]
        W = 0.5 * max(1.0, t / 0.3)
        kw.setdefault("xmin", kw.get("xd0", 0.5) - W); kw.setdefault("xmax", kw.get("xd0", 0.5) + W)
    with contextlib.redirect_stdout(io.StringIO()):
        s = GenEOS_Solver(**kw)
    xd0 = kw.get("xd0", 0.5)
    gl, gr = kw["gl"], kw["gr"]
    stats = {"points": 0, "jumps": 0, "evals": 0, "pattern": None}
    P = profile(s, [xd0], t)
    Pm = profile(s, [xd0], 0.5 * t)
    Pp = profile(s, [xd0], 1.5 * t)
    stats["evals"] = 3 * len(P["x"])
    runs, scale = structure(P)
    cpar = {"gm1l": E.sl(gl - 1), "gm1r": E.sl(gr - 1), "gammal": E.sl(gl), "gammar": E.sl(gr)}
    fam = state["fam"]
    ev = [{"k": "Cfg", "tid": tid, "fam": fam, "groups": sorted(groups), "par": cpar, "geometry": 1}]
    x = P["x"]
    dxcell = (x[-1] - x[0]) / res
    if len(runs) != 4:
        # a star region narrower than a few internal cells: the structure is not resolved by the solver's table at this
        # time; no verdict is drawn from such a profile (counted in the evidence as pattern "unresolved")
        stats["pattern"] = "unresolved"
        if not jwl:
            # ... unless the table SHOULD resolve it: on ideal-gas data the closed-form solver says how wide the four constant
            # states are on this very grid; if each spans a dozen cells and the general solver still does not show four
            # plateaus, its profile is not a Riemann fan structure at all (GRAM.region: a region the grammar does not know)
            from exactpack.solvers.riemann.ep_riemann import IGEOS_Solver
            kwi = {k: v for k, v in kw.items() if k not in ("num_x_pts", "num_int_pts")}
            with contextlib.redirect_stdout(io.StringIO()):
                sol = G.call(IGEOS_Solver(**kwi), np.asarray(P["x"], float), t)
            Q = {"x": P["x"], "p": np.asarray(sol["pressure"], float), "rho": np.asarray(sol["density"], float),
                 "u": np.asarray(sol["velocity"], float), "e": np.asarray(sol["specific_internal_energy"], float)}
            Q = {k: Q[k] for k in ["x"] + [k for k in NAMES if k in Q]}
            try:
                rq, _ = structure(Q)
            except KeyError:
                rq = []
            if len(rq) == 4 and min(b - a for a, b in rq) >= 12:
                stats["pattern"] = "not-a-fan-structure"
                ev.append({"k": "Pt", "tid": tid, "reg": "unstructured", "fin": True, "smooth": False, "x": E.sl(1.0), "v": {}, "bal": {}})
                ev.append({"k": "End", "tid": tid})
                return ev, stats
        return [], stats
    regs = ["L", "Ls", "Rs", "R"]
    fans = {0: "fanL", 2: "fanR"}
    plats = [{k: float(P[k][a + 1]) for k in NAMES} for a, b in runs]

    def eosbal(pt_, g):
        if pt_["p"] < 2e-3 * scale["p"]:
            return {}                      # three decades down a fan the table's own integration error (0.7 %) exceeds any EOS tolerance
        if jwl:
            f = float(jwl_f(pt_["rho"], g, kw))
            return {"eos": E.e8([pt_["p"], -(g - 1) * pt_["rho"] * pt_["e"], -f], max(abs(pt_["p"]), abs(f)))}
        return {"eos": E.e8([pt_["p"], -(g - 1) * pt_["rho"] * pt_["e"]])}

    def ramp_mid(Pq, guess_frac):
        """middle of the transition nearest to the similarity position guess_frac (in (x-xd0)/t)"""
        return guess_frac
    pat = ""
    for i in range(4):
        g = gl if i < 2 else gr
        a, b = runs[i]
        for q in (a + (b - a) // 4, a + 3 * (b - a) // 4):
            pt_ = {k: float(P[k][q]) for k in NAMES}
            ev.append({"k": "Pt", "tid": tid, "reg": regs[i], "fin": bool(all(np.isfinite(list(pt_.values())))), "smooth": False,
                       "x": E.sl(abs(x[q] - xd0) + 1e-300), "v": {k: E.sl(v) for k, v in pt_.items()}, "bal": eosbal(pt_, g)})
            stats["points"] += 1
        if i == 3:
            break
        c0, c1 = runs[i][1], runs[i + 1][0]            # transition occupies cells c0 .. c1
        width = x[c1] - x[c0]
        if (c1 - c0) <= 4 or width <= 3.5 * dxcell:
            pat += "S" if i != 1 else "C"
            xs = 0.5 * (x[c0] + x[c1])
            xi = (xs - xd0) / t
            # the same discontinuity at t/2 and 3t/2 (similarity guess, then the nearest narrow transition)
            def locate(Pq, tq):
                rq, _ = structure(Pq)
                if len(rq) != 4:
                    return None
                return 0.5 * (Pq["x"][rq[i][1]] + Pq["x"][rq[i + 1][0]])
            xm, xp = locate(Pm, 0.5 * t), locate(Pp, 1.5 * t)
            L, R = plats[i], plats[i + 1]
            if xm is None or xp is None:
                # the same wave is not resolved at t/2 or 3t/2: its speed from the similarity position at t alone
                xm, xp = xd0 + xi * 0.5 * t, xd0 + xi * 1.5 * t
            if True:
                sp = (xp - xm) / t
                wl, wr = L["u"] - sp, R["u"] - sp
                ml, mr = L["rho"] * wl, R["rho"] * wr
                cs = math.sqrt(scale["p"] / scale["rho"])
                # (floors: a contact carries no mass flux; its speed is known to one smeared cell per elapsed time)
                bal = {"mass": E.e8([ml, -mr], scale["rho"] * cs),
                       "mom": E.e8([ml * wl, L["p"], -mr * wr, -R["p"]]),
                       "ener": E.e8([ml * (L["e"] + wl * wl / 2), L["p"] * wl, -mr * (R["e"] + wr * wr / 2), -R["p"] * wr], scale["p"] * cs)}
                # the located position is good to one smeared cell at each of the two times: the speed to ds = 2 cells / t; the flux
                # balances inherit ds x (jump of the conserved density), passed to the specification as slack (as for the integrals)
                ds = 2.0 * dxcell / t
                EL, ER = L["rho"] * (L["e"] + L["u"] ** 2 / 2), R["rho"] * (R["e"] + R["u"] ** 2 / 2)
                Ub = [max(abs(ml), abs(mr), scale["rho"] * cs), max(abs(ml * wl), abs(L["p"]), abs(mr * wr), abs(R["p"])),
                      max(abs(ml * (L["e"] + wl * wl / 2)), abs(L["p"] * wl), abs(mr * (R["e"] + wr * wr / 2)), abs(R["p"] * wr), scale["p"] * cs)]
                jslack = {"mass": ds * abs(L["rho"] - R["rho"]) / Ub[0], "mom": ds * abs(L["rho"] * L["u"] - R["rho"] * R["u"]) / Ub[1],
                          "ener": ds * abs(EL - ER) / Ub[2], "speed": ds / cs}
                jslack = {k_: int(min(10**8, round(1e8 * v_))) for k_, v_ in jslack.items()}
                dp = abs(L["p"] - R["p"]) / scale["p"]; du = abs(L["u"] - R["u"]) / max(scale["u"], cs)
                kind = "contact" if (dp < 1e-6 and du < 1e-6) else "shock"
                if kind == "shock":
                    ahead_, behind_ = (L, R) if (ml + mr) > 0 else (R, L)
                    if behind_["p"] < ahead_["p"] and dp < 0.05:
                        # a WEAK expansion (pressure drop below 5 %) only a few cells wide: a rarefaction the table does not resolve,
                        # not a shock; nothing is concluded from this profile (strong expansive jumps are still judged)
                        stats["pattern"] = "unresolved"
                        return [], stats
                ev.append({"k": "Jump", "tid": tid, "kind": kind, "ahead": "L" if (ml + mr) > 0 else "R", "bal": bal, "slack": jslack, "s": E.sl(sp), "x": E.sl(abs(xi) + 1e-300),
                           "L": {k: E.sl(v) for k, v in L.items()}, "R": {k: E.sl(v) for k, v in R.items()},
                           "cont": {"p": E.e8([L["p"], -R["p"]]), "u": E.e8([L["u"], -R["u"]], cs), "s": E.e8([sp, -0.5 * (L["u"] + R["u"])], cs)}})
                stats["jumps"] += 1
        else:
            pat += "R"
            wide = (c1 - c0) >= 30                   # (interpolation across a fan of n cells is good to about 1/n^2)
            idx = np.linspace(c0 + 3, c1 - 3, 7).astype(int) if wide else np.array([(c0 + c1) // 2])
            xi_all = (x - xd0) / t
            for q in idx:
                pt_ = {k: float(P[k][q]) for k in NAMES}
                bal = eosbal(pt_, g)
                if "PDE" in groups and wide and pt_["p"] >= 2e-3 * scale["p"]:
                    sl_ = slice(q - 2, q + 3)
                    d = {k: np.polyfit(xi_all[sl_] - xi_all[q], P[k][sl_], 2)[1] for k in NAMES}     # d/dxi by a local quadratic
                    w = pt_["u"] - xi_all[q]
                    S = abs(pt_["u"]) + math.sqrt(abs(pt_["p"] / pt_["rho"]))
                    Lh = abs(xi_all[c1] - xi_all[c0])
                    bal.update({"mass": E.e8([w * d["rho"], pt_["rho"] * d["u"], 0.0, 0.0], 1e-3 * pt_["rho"] * S / Lh),
                                "mom": E.e8([w * d["u"], d["p"] / pt_["rho"], 0.0], 1e-3 * S * S / Lh),
                                "ener": E.e8([w * d["e"], pt_["p"] / pt_["rho"] * d["u"], 0.0, 0.0], 1e-3 * S ** 3 / Lh)})
                    # self-similarity, on which the reduction of the PDE to d/dxi rests: same state at the same xi at 3t/2
                    xq = xd0 + xi_all[q] * 1.5 * t
                    simv = {k: float(np.interp(xq, Pp["x"], Pp[k])) for k in NAMES}
                    bal["similar"] = E.e8([max(abs(simv[k] - pt_[k]) / scale[k] for k in NAMES), 0.0], 1.0)
                ev.append({"k": "Pt", "tid": tid, "reg": fans[i], "fin": True, "smooth": bool("mass" in bal), "x": E.sl(abs(x[q] - xd0) + 1e-300),
                           "v": {k: E.sl(v) for k, v in pt_.items()}, "bal": bal})
                stats["points"] += 1
    stats["pattern"] = pat
    stats["uclass"] = "ul<ur" if kw["ul"] < kw["ur"] else ("ul=ur" if kw["ul"] == kw["ur"] else "ul>ur")
    if "INT" in groups:
        a_, b_ = x[runs[0][0] + 2], x[runs[3][1] - 2]
        m = (x >= a_) & (x <= b_)
        xx = x[m]
        dens = np.array([P["rho"][m], P["rho"][m] * P["u"][m], P["rho"][m] * (P["e"][m] + 0.5 * P["u"][m] ** 2)])
        tot = np.trapezoid(dens, xx, axis=1)
        def cons(S):
            return np.array([S["rho"], S["rho"] * S["u"], S["rho"] * (S["e"] + 0.5 * S["u"] ** 2)])
        def flux(S):
            return np.array([S["rho"] * S["u"], S["rho"] * S["u"] ** 2 + S["p"], S["u"] * (S["rho"] * (S["e"] + 0.5 * S["u"] ** 2) + S["p"])])
        Lst, Rst = plats[0], plats[3]
        init = cons(Lst) * (xd0 - a_) + cons(Rst) * (b_ - xd0)
        fl, fr = flux(Lst), flux(Rst)
        cs = math.sqrt(scale["p"] / scale["rho"])
        floors = [scale["rho"] * (b_ - a_), scale["rho"] * cs * (b_ - a_), scale["p"] * (b_ - a_)]
        # the table smears every discontinuity over about one cell: the integral is uncertain by (cell width) x (jump of the integrand)
        # for each shock / contact (not for the fans, which the table resolves); passed to the specification as slack
        smear = np.zeros(3)
        for i_, ch in enumerate(pat):
            if ch in "SC":
                smear += np.abs(cons(plats[i_]) - cons(plats[i_ + 1])) * dxcell
        terms = [[tot[q], -init[q], -t * fl[q], t * fr[q]] for q in range(3)]
        U = [max(max(abs(z) for z in terms[q]), floors[q] * 1e-2) for q in range(3)]
        ev.append({"k": "Int", "tid": tid, "window_ok": True,
                   "slack": {n_: int(min(10**8, round(1e8 * smear[q] / U[q]))) for q, n_ in enumerate(("mass", "mom", "ener"))},
                   "bal": {n_: E.e8(terms[q], floors[q] * 1e-2) for q, n_ in enumerate(("mass", "mom", "ener"))}})
    if "ADM" in groups:
        bnd = {}
        for k in ("rho", "p"):
            vals = [Pl[k] for Pl in plats]
            bnd[k] = {"min": E.sl(float(np.min(P[k]))), "max": E.sl(float(np.max(P[k]))), "lo": E.sl(min(vals)), "hi": E.sl(max(vals))}
        ev.append({"k": "Bnd", "tid": tid, "b": bnd})
    ev.append({"k": "End", "tid": tid})
    return ev, stats
