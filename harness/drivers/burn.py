"""Scan driver for the burn-time solvers (Kenamond 1-3, DSD cylindrical expansion):
straight scans through the explosive; per point the operands of the causal /
Lipschitz / eikonal laws of spec/Profile.tla (the local detonation speed is the
documented speed of the material the point lies in)."""
import math
import numpy as np

from .. import encode as E
from . import generic as G


def preload():
    for f in ("Kenamond1", "Kenamond2", "Kenamond3", "DSDcyl"):
        G.cls_of(f)


def embed(P2, g):
    """(N,2) points in the (x, axis) plane -> (N,g) with the axis last"""
    P2 = np.asarray(P2, float)
    if g == 2:
        return P2
    return np.stack([P2[:, 0], 0.37 * P2[:, 0], P2[:, 1]], axis=1) if False else np.stack([P2[:, 0], np.zeros(len(P2)), P2[:, 1]], axis=1)


def lines(fam, kw):
    """list of (label, slowness function name, (N,g) points) straight scans; where to look only"""
    g = kw.get("geometry", 2)
    out = []
    def seg(a, b, n=41):
        a, b = np.asarray(a, float), np.asarray(b, float)
        return a[None, :] + (b - a)[None, :] * np.linspace(0.0, 1.0, n)[:, None]
    if fam == "Kenamond1":
        xd = np.array(kw["x_d"])
        u = np.zeros(g); u[0] = 1.0
        v = np.ones(g) / math.sqrt(g)
        out.append(("ray", seg(xd, xd + 6.0 * v)))
        out.append(("chord", seg(xd + np.array([3.0, -4.0, 1.0][:g]), xd + np.array([-2.5, 5.0, -2.0][:g]))))
    elif fam == "Kenamond2":
        R = kw["R"]
        out.append(("inner", embed(seg([-0.55 * R, -0.6 * R], [0.6 * R, 0.5 * R]), g)))
        out.append(("outer", embed(seg([1.3 * R, -2.2 * R], [2.4 * R, 2.9 * R]), g)))
        out.append(("cross", embed(seg([-1.9 * R, 0.3 * R], [2.1 * R, -0.4 * R], 81), g)))
        out.append(("axis", embed(seg([0.0, -3.6 * R], [0.0, 3.7 * R], 81), g)))
    elif fam == "Kenamond3":
        R = kw["R"]
        xd = np.array(kw["x_d"], float)
        n_ = xd / np.linalg.norm(xd)
        # a direction perpendicular to the detonator direction
        p_ = np.zeros(g); p_[0] = 1.0
        p_ = p_ - np.dot(p_, n_) * n_
        if np.linalg.norm(p_) < 1e-6:
            p_ = np.zeros(g); p_[-1] = 1.0; p_ = p_ - np.dot(p_, n_) * n_
        p_ /= np.linalg.norm(p_)
        out.append(("los", seg(xd + 0.2 * R * p_, 1.6 * R * p_ + 0.4 * R * n_)))
        out.append(("shadow-crossing", seg(-1.5 * R * n_ - 2.5 * R * p_, -1.5 * R * n_ + 2.5 * R * p_, 81)))
        out.append(("behind", seg(-1.02 * R * n_, -3.0 * R * n_)))          # exactly behind the obstacle
        out.append(("tangent", seg(1.3 * R * p_ + 0.8 * R * n_, 1.3 * R * p_ - 2.0 * R * n_, 81)))
    elif fam == "DSDcyl":
        r1, r2 = kw["r_1"], kw["r_2"]
        for th in (0.3, 2.1):
            rr = np.linspace(r1, 1.6 * r2, 61)
            out.append(("radial", np.stack([rr * math.cos(th), rr * math.sin(th)], axis=1)))
        out.append(("chord", seg([1.1 * r1, -1.2 * r2], [1.15 * r1, 1.3 * r2], 61)))
    return out


def slowness(fam, kw, p):
    """documented local slowness 1/D at point p"""
    r = float(np.linalg.norm(p))
    if fam == "Kenamond2":
        return 1.0 / (kw["D1"] if r < kw["R"] else kw["D2"])
    if fam == "DSDcyl":
        if r < kw["r_2"]:
            return 1.0 / (kw["D_CJ_1"] - kw["alpha_1"] / r)
        return 1.0 / (kw["D_CJ_2"] - kw["alpha_2"] / r)
    return 1.0 / kw["D"]


def max_slowness(fam, kw, p, q):
    if fam == "Kenamond2":
        return 1.0 / min(kw["D1"], kw["D2"]) if (min(np.linalg.norm(p), np.linalg.norm(q)) < kw["R"] <= max(np.linalg.norm(p), np.linalg.norm(q))
                                                   or _crosses(p, q, kw["R"])) else max(slowness(fam, kw, p), slowness(fam, kw, q))
    if fam == "DSDcyl":
        rmin = _min_radius(p, q)
        return max(slowness(fam, kw, p), slowness(fam, kw, q), 1.0 / (kw["D_CJ_1"] - kw["alpha_1"] / max(rmin, kw["r_1"])) if rmin < kw["r_2"] else 0.0,
                   1.0 / (kw["D_CJ_2"] - kw["alpha_2"] / max(rmin, kw["r_2"])) if max(np.linalg.norm(p), np.linalg.norm(q)) >= kw["r_2"] else 0.0)
    return 1.0 / kw["D"]


def _min_radius(p, q):
    d = q - p
    L2 = float(np.dot(d, d))
    if L2 == 0:
        return float(np.linalg.norm(p))
    s = min(1.0, max(0.0, -float(np.dot(p, d)) / L2))
    return float(np.linalg.norm(p + s * d))


def _crosses(p, q, R):
    return _min_radius(p, q) < R


def scan(state, groups, tid):
    fam = state["fam"]
    kw = G.kwargs(state)
    solver = G.build(fam, kw)
    g = kw.get("geometry", 2)
    tds = kw["t_d"] if isinstance(kw.get("t_d"), (list, tuple)) else [kw.get("t_d", 0.0)]
    tmin = float(min(tds))
    Lref = {"Kenamond1": 1.0, "Kenamond2": kw.get("R", 1.0), "Kenamond3": kw.get("R", 1.0), "DSDcyl": kw.get("r_2", 1.0)}[fam]
    ev = [{"k": "Cfg", "tid": tid, "fam": fam, "groups": sorted(groups), "par": {}, "geometry": g}]
    stats = {"points": 0, "jumps": 0, "evals": 0, "pattern": None}

    def bt(P):
        stats["evals"] += len(P)
        return np.asarray(G.call(solver, np.asarray(P, float), 1.0)["burntime"], float)
    # burn time at the detonators
    dets = []
    if fam in ("Kenamond1", "Kenamond3"):
        dets = [(np.array(kw["x_d"], float), float(kw["t_d"]), True)]
    elif fam == "Kenamond2":
        for i, (a, td) in enumerate(zip([kw["dets"][0], kw["dets"][1], 0.0, kw["dets"][2], kw["dets"][3]], kw["t_d"])):
            p = np.zeros(g); p[-1] = a
            dets.append((p, float(td), i == 2))
    for p, td, exact in dets:
        b = bt([p])[0]
        fin = bool(np.isfinite(b))
        ev.append({"k": "Pt", "tid": tid, "reg": "detonator", "fin": fin, "smooth": False, "x": E.sl(0),
                   "v": {"bt": E.sl(b)} if fin else {}, "bal": {},
                   "ineq": {"det-not-late": E.e8([b, -td], max(abs(td), Lref * slowness(fam, kw, p + 1e-9)))} if fin else {},
                   "eq": {"det-time": E.e8([b, -td], max(abs(td), Lref * slowness(fam, kw, p + 1e-9)))} if (fin and exact) else {}})
        stats["points"] += 1
        ev.append({"k": "Brk", "tid": tid})
    for label, P in lines(fam, kw):
        B = bt(P)
        # gradient by central differences with two steps (a kink of the min/max composition is detected by disagreement)
        grads = []
        for h in (1e-4 * Lref, 2.5e-5 * Lref):
            G_ = np.zeros((len(P), g))
            for a in range(g):
                dP = np.zeros(g); dP[a] = h
                G_[:, a] = (bt(P + dP) - bt(P - dP)) / (2 * h)
            grads.append(np.linalg.norm(G_, axis=1))
        for i in range(len(P)):
            fin = bool(np.isfinite(B[i]))
            e_ = {"k": "Pt", "tid": tid, "reg": "he", "fin": fin, "smooth": False, "x": E.sl(i + 1), "v": {"bt": E.sl(B[i])} if fin else {},
                  "bal": {}, "ineq": {}, "eq": {}, "line": label}
            if fin:
                tscale = max(abs(B[i]), Lref * slowness(fam, kw, P[i]))
                e_["ineq"]["causal"] = E.e8([tmin, -B[i]], tscale)            # t_min - bt <= 0
                if i > 0 and np.isfinite(B[i - 1]):
                    dx = float(np.linalg.norm(P[i] - P[i - 1]))
                    e_["ineq"]["lipschitz"] = E.e8([abs(B[i] - B[i - 1]), -dx * max_slowness(fam, kw, P[i - 1], P[i])], tscale)
                s_loc = slowness(fam, kw, P[i])
                g1, g2 = grads[0][i], grads[1][i]
                near_boundary = fam in ("Kenamond2",) and abs(np.linalg.norm(P[i]) - kw["R"]) < 1e-3 * Lref \
                    or fam == "DSDcyl" and (abs(np.linalg.norm(P[i]) - kw["r_2"]) < 1e-3 * Lref or np.linalg.norm(P[i]) < kw["r_1"] * (1 + 1e-3))
                if fam == "Kenamond3":
                    n__ = np.array(kw["x_d"], float) / np.linalg.norm(kw["x_d"])
                    along = float(np.dot(P[i], n__))
                    perp = float(np.linalg.norm(P[i] - along * n__))
                    near_boundary = near_boundary or (along < 0 and perp < 1e-2 * Lref)      # the kink line behind the obstacle
                near_det = any(np.linalg.norm(P[i] - d_[0]) < 1e-2 * Lref for d_ in dets)      # the field has a cone point at a detonator
                if np.isfinite(g1) and np.isfinite(g2) and abs(g1 - g2) <= 1e-6 * s_loc and not near_boundary and not near_det and label != "behind":
                    # ("behind": the axis behind the obstacle is where the two families of rays meet, a kink of the field)
                    e_["eq"]["eikonal"] = E.e8([g2, -s_loc], s_loc)
                    e_["smooth"] = True
            ev.append(e_)
            stats["points"] += 1
        ev.append({"k": "Brk", "tid": tid})
    ev.append({"k": "End", "tid": tid})
    return ev, stats
