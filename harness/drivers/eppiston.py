"""Scan driver for the elastic-plastic piston: plastic state | plastic wave | elastic
state | elastic precursor | rest.  Wave positions from the returned fields (plateaus
and m-ary refinement, shared with the Riemann driver); the total stress p - s_dev
replaces the pressure in the jump conditions; Mie-Gruneisen EOS as an additive balance."""
import math
import numpy as np

from .. import encode as E
from .. import measure as M
from . import generic as G
from . import riemann as R

NAMES = ("rho", "u", "p", "e", "sdev")


def preload():
    G.cls_of("EPpiston")


class Ev:
    """public call with the documented constraint max(x) >= elastic-wave position honoured:
    a far point is always appended to the request"""

    def __init__(self, solver, xfar):
        self.s, self.xfar, self.points = solver, xfar, 0

    def __call__(self, x, t):
        x = np.atleast_1d(np.asarray(x, float))
        self.points += x.size
        sol = G.call(self.s, np.concatenate([x, [self.xfar]]), t)
        f = M.fields_of(sol)
        f["sdev"] = np.asarray(sol["deviatoric stress"], float)
        return {k: v[:-1] for k, v in f.items()}


def structure(F, t, a, b, n=4001, flat=1e-12):
    x = np.linspace(a, b, n)
    f = F(x, t)
    scale = {k: max(np.max(np.abs(f[k])), 1e-300) for k in NAMES}
    same = np.ones(n - 1, bool)
    for k in NAMES:
        same &= np.abs(np.diff(f[k])) <= flat * scale[k]
    runs, i = [], 0
    while i < n - 1:
        if same[i]:
            j = i
            while j < n - 1 and same[j]:
                j += 1
            if j - i >= 8:
                runs.append((i, j))
            i = j
        else:
            i += 1
    plats = [{k: float(f[k][i0 + 1]) for k in NAMES} for (i0, i1) in runs]
    edges = []
    for (r0, r1), (s0, s1), P in zip(runs[:-1], runs[1:], plats[:-1]):
        def inP(xs, P=P):
            g = F(xs, t)
            return np.array([max(abs(g[k][q] - P[k]) / scale[k] for k in NAMES) <= flat for q in range(len(xs))])
        lo, hi = M.refine_kary(inP, x[r1], x[min(s0, n - 1)])
        edges.append(0.5 * (lo + hi))
    return plats, edges, scale


def scan(state, groups, tid):
    kw = G.kwargs(state)
    t = E.qf(state["t"])
    solver = G.build("EPpiston", kw)
    xfar = 2.0 * float(solver.wv_el) * t * 1.05 + 1e-12        # where to look: beyond the elastic precursor
    F = Ev(solver, xfar)
    dt_ = 1e-3 * t
    plats, edges, scale = structure(F, t, 0.0, xfar / 1.05)
    pm, em, _ = structure(F, t - dt_, 0.0, xfar / 1.05)
    pp, ep, _ = structure(F, t + dt_, 0.0, xfar / 1.05)
    rho0, gam, c0, s0 = kw["rho0"], kw["gamma"], kw["c0"], kw["s0"]
    ev = [{"k": "Cfg", "tid": tid, "fam": "EPpiston", "groups": sorted(groups), "par": {}, "geometry": 1}]
    stats = {"points": 0, "jumps": 0, "pattern": "plateaus=%d/%s" % (len(plats), kw["model"])}
    regs = ["plastic", "elastic", "rest"] if len(plats) == 3 else ["plateau%d" % i for i in range(len(plats))]

    def eos_terms(P):
        eta = 1.0 - rho0 / P["rho"]
        Ph = rho0 * c0 ** 2 * eta / (1.0 - s0 * eta) ** 2
        Eh = eta * Ph / (2.0 * rho0)
        return E.e8([P["p"], -Ph, -gam * P["rho"] * P["e"], gam * P["rho"] * Eh], 1e-6 * rho0 * c0 ** 2)
    for i, P in enumerate(plats):
        ev.append({"k": "Pt", "tid": tid, "reg": regs[i], "fin": bool(all(np.isfinite(list(P.values())))), "smooth": False,
                   "x": E.sl(0), "v": {k: E.sl(v) for k, v in P.items()}, "bal": {"eos": eos_terms(P)}})
        stats["points"] += 1
        if i < len(edges) and len(em) == len(edges) and len(ep) == len(edges):
            s = (ep[i] - em[i]) / (2 * dt_)
            Lp, Rp = plats[i], plats[i + 1]
            sgl, sgr = Lp["p"] - Lp["sdev"], Rp["p"] - Rp["sdev"]       # total stress
            wl, wr = Lp["u"] - s, Rp["u"] - s
            ml, mr = Lp["rho"] * wl, Rp["rho"] * wr
            ev.append({"k": "Jump", "tid": tid, "kind": "shock", "ahead": "L" if (ml + mr) > 0 else "R",
                       "bal": {"mass": E.e8([ml, -mr]), "mom": E.e8([ml * wl, sgl, -mr * wr, -sgr]),
                               "ener": E.e8([ml * (Lp["e"] + wl * wl / 2), sgl * wl, -mr * (Rp["e"] + wr * wr / 2), -sgr * wr])},
                       "s": E.sl(s), "x": E.sl(edges[i]),
                       "L": {k: E.sl(v) for k, v in Lp.items()}, "R": {k: E.sl(v) for k, v in Rp.items()}})
            stats["jumps"] += 1
    ev.append({"k": "End", "tid": tid})
    stats["evals"] = F.points
    return ev, stats
