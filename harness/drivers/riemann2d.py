"""Scan driver for the 2-D steady supersonic two-state Riemann problem: a sweep in polar angle
through the returned fields.  Constant states (plateaus), oblique shocks / the slip line (jumps)
and Prandtl-Meyer fans are found from the fields; wave angles by bisection on the polar angle."""
import math
import numpy as np

from .. import encode as E
from .. import measure as M
from . import generic as G

NAMES = ("p", "rho", "e", "mach", "u", "v")


def preload():
    import os
    os.environ.setdefault("MPLBACKEND", "Agg")
    import exactpack.solvers.riemann2D_2section_steadystate.ep_riemann2D_2section_steadystate  # noqa: F401


def nu(Mach, g):
    """Prandtl-Meyer function"""
    a = math.sqrt((g + 1.0) / (g - 1.0))
    return a * math.atan(math.sqrt(Mach * Mach - 1.0) / a) - math.atan(math.sqrt(Mach * Mach - 1.0))


def scan(state, groups, tid):
    from exactpack.solvers.riemann2D_2section_steadystate.ep_riemann2D_2section_steadystate import IGEOS_Solver
    p = {k: G.value(v) for k, v in state["par"].items()}
    bottom = [p["pB"], p["rB"], p["MB"], p["thB"], p["gB"]]
    top = [p["pT"], p["rT"], p["MT"], p["thT"], p["gT"]]
    import contextlib, io, warnings
    with contextlib.redirect_stdout(io.StringIO()), warnings.catch_warnings():
        warnings.simplefilter("ignore")
        s = IGEOS_Solver(bottom_state=bottom, top_state=top)
    stats = {"points": 0, "jumps": 0, "evals": 0, "pattern": None}

    def F(phi):
        phi = np.atleast_1d(np.asarray(phi, float))
        stats["evals"] += phi.size
        # the points are requested in a scrambled order (the property holds at every point whatever the request looks
        # like) and put back in sweep order here
        perm = np.random.RandomState(phi.size).permutation(phi.size)
        inv = np.argsort(perm)
        raw = G.call(s, [(math.cos(a), math.sin(a)) for a in phi[perm]], 0.25)
        sol = {nm: np.asarray(raw[nm])[inv] for nm in raw.dtype.names}
        return {"p": np.asarray(sol["pressure"], float), "rho": np.asarray(sol["density"], float), "e": np.asarray(sol["specific_internal_energy"], float),
                "mach": np.asarray(sol["Mach"], float), "u": np.asarray(sol["x_velocity"], float), "v": np.asarray(sol["y_velocity"], float),
                "speed": np.asarray(sol["speed"], float)}
    n = 1201
    phi = np.linspace(-1.2, 1.2, n)
    f = F(phi)
    scale = {k: max(np.max(np.abs(f[k])), 1e-300) for k in NAMES}
    flat = 1e-10
    same = np.ones(n - 1, bool)
    for k in NAMES:
        same &= np.abs(np.diff(f[k])) <= flat * scale[k]
    runs, i = [], 0
    while i < n - 1:
        if same[i]:
            j = i
            while j < n - 1 and same[j]:
                j += 1
            if j - i >= 6:
                runs.append((i, j))
            i = j
        else:
            i += 1
    plats = [{k: float(f[k][a + 1]) for k in list(NAMES) + ["speed"]} for a, b in runs]
    edges = []
    for (r0, r1), (s0, s1), P, Q in zip(runs[:-1], runs[1:], plats[:-1], plats[1:]):
        def inP(xs, P=P):
            g = F(xs)
            return np.array([max(abs(g[k][q] - P[k]) / scale[k] for k in NAMES) <= flat for q in range(len(xs))])
        def inQ(xs, Q=Q):
            g = F(xs)
            return np.array([max(abs(g[k][q] - Q[k]) / scale[k] for k in NAMES) <= flat for q in range(len(xs))])
        lo, hi = M.refine_kary(inP, phi[r1], phi[min(r1 + 1, n - 1)], rounds=8, m=17)
        lo2, hi2 = M.refine_kary(lambda xs: ~inQ(xs), phi[max(s0 - 1, 0)], phi[s0], rounds=8, m=17)
        a, b = 0.5 * (lo + hi), 0.5 * (lo2 + hi2)
        edges.append(("jump", a, a) if abs(b - a) < 1e-7 else ("fan", a, b))
    gB, gT = p["gB"], p["gT"]
    regs = ["B", "Bs", "Ts", "T"]
    fans = {0: "fanB", 2: "fanT"}
    stats["pattern"] = "".join("S" if e[0] == "jump" else "R" for e in (edges[0], edges[-1])) if len(plats) == 4 else "plateaus=%d" % len(plats)
    stats["pattern"] = stats["pattern"][0] + "C" + stats["pattern"][1] if len(plats) == 4 else stats["pattern"]
    par = {"gm1l": E.sl(gB - 1), "gm1r": E.sl(gT - 1), "gammal": E.sl(gB), "gammar": E.sl(gT)}
    ev = [{"k": "Cfg", "tid": tid, "fam": "Riemann2D", "groups": sorted(groups), "par": par, "geometry": 2, "morphology": str(getattr(s, "morphology", ""))}]
    if len(plats) != 4:
        for i, P in enumerate(plats):
            ev.append({"k": "Pt", "tid": tid, "reg": "plateau%d" % i, "fin": True, "smooth": False, "x": E.sl(1.0),
                       "v": {"p": E.sl(P["p"]), "rho": E.sl(P["rho"]), "e": E.sl(P["e"])}, "bal": {}, "eq": {}, "ineq": {}})
        ev.append({"k": "End", "tid": tid})
        return ev, stats

    def consistency(P, g):
        c = math.sqrt(g * P["p"] / P["rho"])
        sp = math.hypot(P["u"], P["v"])
        return {"speed2=u2+v2": E.e8([P["speed"], -sp], sp), "mach=speed/c": E.e8([P["mach"], -sp / c], P["mach"])}

    def pt(P, reg, g, extra=None):
        eq = consistency(P, g)
        eq.update(extra or {})
        fin = all(np.isfinite(list(P.values())))
        ev.append({"k": "Pt", "tid": tid, "reg": reg, "fin": bool(fin), "smooth": False, "x": E.sl(1.0),
                   "v": {"p": E.sl(P["p"]), "rho": E.sl(P["rho"]), "e": E.sl(P["e"])}, "bal": {}, "eq": eq, "ineq": {}})
        stats["points"] += 1
    for i in range(4):
        g = gB if i < 2 else gT
        extra = {}
        if i in (1, 2):
            # the star state is reached from its side's initial state through the side's wave
            P0 = plats[0] if i == 1 else plats[3]
            Ps = plats[i]
            e_ = edges[0] if i == 1 else edges[2]
            th0, ths = math.atan2(P0["v"], P0["u"]), math.atan2(Ps["v"], Ps["u"])
            if e_[0] == "jump":
                # oblique-shock relations between the two constant states alone (no use of where the ray is placed):
                # normal Mach number from the pressure ratio, then the density ratio, the turning angle and the downstream Mach number
                pr_ = Ps["p"] / P0["p"]
                mn2 = 1.0 + (g + 1.0) / (2.0 * g) * (pr_ - 1.0)              # Mn1^2
                M1 = P0["mach"]
                if mn2 > 1.0 and M1 > 1.0 and mn2 <= M1 * M1:
                    sb = math.sqrt(mn2) / M1                                 # sin(beta)
                    beta = math.asin(sb)
                    tand = 2.0 / math.tan(beta) * (mn2 - 1.0) / (M1 * M1 * (g + math.cos(2 * beta)) + 2.0)
                    delta = abs(ths - th0)
                    mn22 = ((g - 1.0) * mn2 + 2.0) / (2.0 * g * mn2 - (g - 1.0))     # Mn2^2
                    M2 = math.sqrt(mn22) / math.sin(beta - math.atan(tand))
                    extra["shock.density-ratio"] = E.e8([Ps["rho"] / P0["rho"], -((g + 1.0) * mn2) / ((g - 1.0) * mn2 + 2.0)])
                    extra["shock.turning=theta(beta,M)"] = E.e8([math.tan(delta), -tand], max(abs(tand), 1e-3))
                    extra["shock.mach-behind"] = E.e8([Ps["mach"], -M2])
            if e_[0] == "fan":
                turn = abs(ths - th0)
                extra["fan.turning=nu(M2)-nu(M1)"] = E.e8([turn, -(nu(Ps["mach"], g) - nu(P0["mach"], g))], max(turn, 1e-3))
                extra["fan.isentropic"] = E.e8([Ps["p"] / Ps["rho"] ** g, -P0["p"] / P0["rho"] ** g])
                h0 = g / (g - 1) * P0["p"] / P0["rho"] + 0.5 * P0["speed"] ** 2
                hs = g / (g - 1) * Ps["p"] / Ps["rho"] + 0.5 * Ps["speed"] ** 2
                extra["fan.total-enthalpy"] = E.e8([hs, -h0])
        pt(plats[i], regs[i], g, extra)
        if i == 3:
            break
        kind, a, b = edges[i]
        L, R = plats[i], plats[i + 1]
        if kind == "jump":
            if i == 1:
                dirL, dirR = math.atan2(L["v"], L["u"]), math.atan2(R["v"], R["u"])
                ev.append({"k": "Jump", "tid": tid, "kind": "slip", "ahead": "L", "bal": {}, "s": E.sl(0), "x": E.sl(1.0),
                           "L": {}, "R": {}, "cont": {"p": E.e8([L["p"], -R["p"]]), "dir": E.e8([dirL, -dirR], 0.1), "along": E.e8([a, -0.5 * (dirL + dirR)], 0.1)}})
            else:
                # oblique shock along the ray at polar angle a: normal / tangential components
                nx, ny = -math.sin(a), math.cos(a)
                tx, ty = math.cos(a), math.sin(a)
                unL, unR = L["u"] * nx + L["v"] * ny, R["u"] * nx + R["v"] * ny
                utL, utR = L["u"] * tx + L["v"] * ty, R["u"] * tx + R["v"] * ty
                g = gB if i == 0 else gT
                hL = g / (g - 1) * L["p"] / L["rho"] + 0.5 * L["speed"] ** 2
                hR = g / (g - 1) * R["p"] / R["rho"] + 0.5 * R["speed"] ** 2
                mL, mR = L["rho"] * unL, R["rho"] * unR
                ahead = "L" if i == 0 else "R"                     # the undisturbed state is on the outside
                up, dn = (L, R) if ahead == "L" else (R, L)
                ev.append({"k": "Jump", "tid": tid, "kind": "shock", "ahead": ahead, "s": E.sl(0), "x": E.sl(1.0),
                           "bal": {"mass": E.e8([mL, -mR]), "mom": E.e8([mL * unL, L["p"], -mR * unR, -R["p"]]), "ener": E.e8([hL, -hR])},
                           "tan": E.e8([utL, -utR], max(abs(L["speed"]), abs(R["speed"]))),
                           "L": {"rho": E.sl(L["rho"]), "p": E.sl(L["p"])}, "R": {"rho": E.sl(R["rho"]), "p": E.sl(R["p"])}})
            stats["jumps"] += 1
        else:
            g = gB if i == 0 else gT
            P0 = plats[0] if i == 0 else plats[3]
            xs = a + (b - a) * (np.arange(1, 6) / 6.0)
            ff = F(xs)
            for q in range(len(xs)):
                Pq = {k: float(ff[k][q]) for k in list(NAMES) + ["speed"]}
                h0 = g / (g - 1) * P0["p"] / P0["rho"] + 0.5 * P0["speed"] ** 2
                hq = g / (g - 1) * Pq["p"] / Pq["rho"] + 0.5 * Pq["speed"] ** 2
                thq, th0 = math.atan2(Pq["v"], Pq["u"]), math.atan2(P0["v"], P0["u"])
                extra = {"fan.isentropic": E.e8([Pq["p"] / Pq["rho"] ** g, -P0["p"] / P0["rho"] ** g]), "fan.total-enthalpy": E.e8([hq, -h0]),
                         "fan.turning=nu(M2)-nu(M1)": E.e8([abs(thq - th0), -(nu(Pq["mach"], g) - nu(P0["mach"], g))], max(abs(thq - th0), 1e-3))}
                pt(Pq, fans[i], g, extra)
    ev.append({"k": "End", "tid": tid})
    return ev, stats
