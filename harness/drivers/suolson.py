"""Scan driver for Su-Olson (non-equilibrium Marshak wave).  The dimensionless energy densities
u = (T_rad/T_bc)^4, v = (T_mat/T_bc)^4 and the dimensionless coordinates x = sqrt(3) kappa z,
tau = 4 a c kappa t / alpha, epsilon = 4 a / alpha are the documented conversion; the spec checks
the conversion factors the driver used against the user's parameters (clause SUOL.conversion)."""
import math
import numpy as np

from .. import encode as E
from . import generic as G

CLIGHT = 2.99792458e10
ASOL = 4.0 * 5.67051e-5 / CLIGHT
KEV = 8.617385e-5


def preload():
    import exactpack.solvers.suolson.suolson  # noqa: F401


def scan(state, groups, tid):
    from exactpack.solvers.suolson.suolson import SuOlson
    p = {k: G.value(v) for k, v in state["par"].items()}
    eps = p["epsilon"]
    alpha = 4.0 * ASOL / eps                     # the user's specific-heat coefficient for this epsilon
    kap, Tbc = p["opac"], p["trad_bc_ev"]
    s = SuOlson(opac=kap, alpha=alpha, trad_bc_ev=Tbc)
    dxdz = math.sqrt(3.0) * kap
    dtaudt = 4.0 * ASOL * CLIGHT * kap / alpha
    tau = E.qf(state["t"])
    t = tau / dtaudt
    stats = {"points": 0, "jumps": 0, "evals": 0, "pattern": None}
    ev = [{"k": "Cfg", "tid": tid, "fam": "SuOlson", "groups": sorted(groups), "geometry": 1,
           "par": {"alpha": E.sl(alpha), "opac": E.sl(kap), "Tbc": E.sl(Tbc), "eps": E.sl(eps), "dxdz": E.sl(dxdz), "dtaudt": E.sl(dtaudt)}}]

    def uv(z, time):
        z = np.atleast_1d(np.asarray(z, float))
        stats["evals"] += z.size
        sol = G.call(s, z, time)
        return (np.asarray(sol["temperature_rad"], float) / Tbc) ** 4, (np.asarray(sol["temperature_mat"], float) / Tbc) ** 4, \
            np.asarray(sol["temperature_rad"], float), np.asarray(sol["temperature_mat"], float)
    xs = np.array([0.0, 0.1, 0.25, 0.5, 1.0, 1.5, 2.0, 2.75, 3.5, 5.0, 7.0])     # into the foot of the wave (u ~ 1e-2 ... 1e-3)
    xs = xs[xs <= max(1.0, 3.0 * math.sqrt(tau / eps) + 1.0)]
    # the solver integrates to an absolute tolerance of 1e-6 in u: a second difference amplifies that by 16/(12 h^2),
    # so the step is as large as the width of the wave allows
    h = min(0.1, 0.2 * math.sqrt(tau / max(eps, 0.1)))
    ht = 3e-2 * tau
    xs = xs[(xs == 0.0) | (xs >= 2.0 * h)]        # the centred stencil stays inside x >= 0
    prev = None
    for x in xs:
        z = x / dxdz
        if x == 0.0:
            # Marshak condition u - (2/sqrt 3) u_x = 1 at x = 0 (one-sided 4th-order difference)
            pts = np.array([0, 1, 2, 3, 4]) * h / dxdz
            u, v, Tr, Tm = uv(pts, t)
            ux = (-25 * u[0] + 48 * u[1] - 36 * u[2] + 16 * u[3] - 3 * u[4]) / (12 * h)
            eq = {"marshak": E.e8([u[0], -(2.0 / math.sqrt(3.0)) * ux, -1.0], 1.0)}
            u0, v0, Tr0, Tm0 = u[0], v[0], Tr[0], Tm[0]
            ut = vt = None
        else:
            pts = (x + np.array([-2, -1, 0, 1, 2]) * h) / dxdz
            u, v, Tr, Tm = uv(pts, t)
            um2, vm2, _, _ = uv([z], t - 2 * ht / dtaudt); um1, vm1, _, _ = uv([z], t - ht / dtaudt)
            up1, vp1, _, _ = uv([z], t + ht / dtaudt); up2, vp2, _, _ = uv([z], t + 2 * ht / dtaudt)
            uxx = (-u[4] + 16 * u[3] - 30 * u[2] + 16 * u[1] - u[0]) / (12 * h * h)
            ut = (8 * (up1[0] - um1[0]) - (up2[0] - um2[0])) / (12 * ht)
            vt = (8 * (vp1[0] - vm1[0]) - (vp2[0] - vm2[0])) / (12 * ht)
            u0, v0, Tr0, Tm0 = u[2], v[2], Tr[2], Tm[2]
            fl = max(1e-3, u0) / max(tau, 0.1)
            eq = {"rad": E.e8([eps * ut, -uxx, -(v0 - u0)], fl), "mat": E.e8([vt, -(u0 - v0)], fl)}
        ineq = {"v<=u": E.e8([v0, -u0], 1.0), "u<=1": E.e8([u0, -1.0], 1.0), "v>=0": E.e8([-v0, 0.0], 1.0)}
        if prev is not None:
            ineq["mono-x"] = E.e8([u0, -prev[0]], 1.0)          # u decreases with x
        if ut is not None:
            ineq["mono-t"] = E.e8([-ut * tau, 0.0], 1.0)         # u increases with t
        fin = bool(np.isfinite(u0) and np.isfinite(v0))
        ev.append({"k": "Pt", "tid": tid, "reg": "all", "fin": fin, "smooth": True, "x": E.sl(x + 1e-300),
                   "v": {"Tr": E.sl(Tr0), "Tm": E.sl(Tm0), "u": E.sl(u0), "vv": E.sl(v0)} if fin else {}, "bal": {}, "eq": eq if fin else {}, "ineq": ineq if fin else {}})
        stats["points"] += 1
        prev = (u0, v0)
    # decay: far ahead of the wave the energy densities vanish
    xf = 12.0 * math.sqrt(max(tau, 0.05) / min(eps, 1.0)) + 12.0
    u, v, Tr, Tm = uv([xf / dxdz], t)
    ev.append({"k": "Pt", "tid": tid, "reg": "all", "fin": bool(np.isfinite(u[0])), "smooth": False, "x": E.sl(xf), "v": {}, "bal": {},
               "eq": {}, "ineq": {"decay": E.e8([abs(u[0]) + abs(v[0]), -1e-3], 1.0)}})
    stats["points"] += 1
    ev.append({"k": "End", "tid": tid})
    return ev, stats
