"""Scan driver for the radiative-shock solvers (property C12): (a) the public call at two times:
the displacement of the profile, measured from the returned fields, over the elapsed time is the
wave speed (the spec compares it with M0 sqrt(gamma (gamma-1) Cv Tref) computed from the user's
parameters) and the profile shape does not change; (b) along the whole steady profile (solver
attributes) mass flux, total momentum flux and total energy flux incl. radiation are constant;
(c) far upstream and downstream material and radiation are in equilibrium."""
import math
import numpy as np

from .. import encode as E
from . import generic as G

A_R = 137.20172


def preload():
    import exactpack.solvers.radshocks.nED_radshocks  # noqa: F401


def scan(state, groups, tid):
    import exactpack.solvers.radshocks.nED_radshocks as R
    import contextlib, io, warnings
    p = {k: G.value(v) for k, v in state["par"].items()}
    kind = p.pop("solver")
    opac = {"constant": {},
            "lowrie": dict(sigA=44.94, sigS=0.4006, expDensity_abs=1.0, expTemp_abs=-3.5, expDensity_scat=1.0, expTemp_scat=0.0),
            "kramers+scattering": dict(sigA=577.35, sigS=50.0, expDensity_abs=0.0, expTemp_abs=-3.5, expDensity_scat=0.0, expTemp_scat=0.0)}[p.pop("opac", "constant")]
    kw = dict(M0=p["M0"], rho0=p["rho0"], Tref=p["Tref"], gamma=p["gamma"], Cv=p["Cv"] * 1.4472799784454e12,
              expDensity_abs=p.get("expDensity_abs", 0.0), expTemp_abs=p.get("expTemp_abs", 0.0))
    kw.update(opac)
    if kind not in ("ED", "Sn"):
        kw["problem"] = kind
    cls = R.ED_Solver if kind == "ED" else R.Sn_Solver if kind == "Sn" else R.nED_Solver
    with contextlib.redirect_stdout(io.StringIO()), warnings.catch_warnings():
        warnings.simplefilter("ignore")
        with np.errstate(all="ignore"):
            s = cls(**kw)
    gam, Cv, Tref, rho0, M0 = kw["gamma"], kw["Cv"], kw["Tref"], kw["rho0"], kw["M0"]
    stats = {"points": 0, "jumps": 0, "evals": 0, "pattern": kind}
    ev = [{"k": "Cfg", "tid": tid, "fam": "RadShock", "groups": sorted(groups), "geometry": 1,
           "par": {"M0": E.sl(M0), "gamma": E.sl(gam), "gm1": E.sl(gam - 1), "Cv": E.sl(Cv), "Tref": E.sl(Tref)}}]
    # ---- (b) flux constancy along the steady profile (attributes)
    rho, u, pr = np.asarray(s.Density, float), np.asarray(s.Speed, float), np.asarray(s.Pressure, float)
    Tm = np.asarray(s.Tm, float)
    Tr = np.asarray(getattr(s, "Tr", s.Tm), float)
    Fr = np.asarray(s.Fr, float)
    c0 = float(s.Sound_Speed[0]) if np.isfinite(s.Sound_Speed[0]) else math.sqrt(gam * (gam - 1) * Cv * Tref)
    e = pr / rho / (gam - 1)
    mass = rho * u
    # radiation pressure: Eddington factor x radiation energy density (1/3 in the diffusion models, the solver's own variable factor for Sn)
    edd = np.asarray(s.VEF, float) if kind == "Sn" and hasattr(s, "VEF") else 1.0 / 3.0
    mom = rho * u * u + pr + edd * A_R * Tr ** 4
    ener = u * (0.5 * rho * u * u + rho * e + pr) + Fr * c0
    ok = np.isfinite(mass) & np.isfinite(mom) & np.isfinite(ener)
    idx = np.nonzero(ok)[0]
    sel = idx[np.linspace(0, len(idx) - 1, min(60, len(idx))).astype(int)]
    i0 = idx[0]
    for i in sel:
        ev.append({"k": "Pt", "tid": tid, "reg": "far-downstream" if i == idx[-1] else "all", "fin": True, "smooth": False,
                   "x": E.sl(abs(float(s.x[i])) + 1e-300), "v": {}, "bal": {},
                   "eq": {"mass-flux": E.e8([mass[i], -mass[i0]]), "momentum-flux": E.e8([mom[i], -mom[i0]]), "energy-flux": E.e8([ener[i], -ener[i0]])},
                   "ineq": {}})
        stats["points"] += 1
    # upstream state = the user's ambient state; both ends in radiative equilibrium
    i1 = idx[-1]
    ends = {"upstream.rho": E.e8([rho[i0], -rho0]), "upstream.T": E.e8([Tm[i0], -Tref]), "upstream.mach": E.e8([u[i0], -M0 * c0]),
            "upstream.equilibrium": E.e8([Tm[i0], -Tr[i0]]), "downstream.equilibrium": E.e8([Tm[i1], -Tr[i1]])}
    ev.append({"k": "Pt", "tid": tid, "reg": "all", "fin": True, "smooth": False, "x": E.sl(1.0), "v": {}, "bal": {}, "eq": ends, "ineq": {}})
    # ---- (a) travelling wave through the public call
    X = -np.flip(np.asarray(s.x, float))
    width = X[-1] - X[0]
    t1 = 0.0
    dt = 0.37 * width / (M0 * math.sqrt(gam * (gam - 1) * Cv * Tref))

    def call(x, t):
        stats["evals"] += len(x)
        sol = G.call(s, np.asarray(x, float), t)
        return {n: np.asarray(sol[n], float) for n in sol.dtype.names if n != "position"}
    tname = "temperature" if kind == "ED" else "temperature_rad"      # monotone through the wave (the material temperature may have a spike)

    def centre(t, guess):
        """position where the material temperature crosses the mean of its end values (bisection on the public call)"""
        xs = np.linspace(guess - 0.75 * width, guess + 0.75 * width, 4001)
        T = call(xs, t)[tname]
        mid = 0.5 * (np.nanmin(T) + np.nanmax(T))
        # the profile rises towards -x (downstream is behind the front): last point above mid
        above = np.nonzero(T >= mid)[0]
        if len(above) == 0 or above[-1] == len(xs) - 1:
            return None, mid
        lo, hi = xs[above[-1]], xs[above[-1] + 1]
        for _ in range(60):
            m = 0.5 * (lo + hi)
            if call([m], t)[tname][0] >= mid:
                lo = m
            else:
                hi = m
        return 0.5 * (lo + hi), mid
    xc1, _ = centre(t1, 0.5 * (X[0] + X[-1]))
    s_doc = M0 * math.sqrt(gam * (gam - 1) * Cv * Tref)
    xc2, _ = centre(t1 + dt, 0.5 * (X[0] + X[-1]) + s_doc * dt) if xc1 is not None else (None, None)
    if xc1 is not None and xc2 is not None:
        speed = (xc2 - xc1) / dt
        ev.append({"k": "Pt", "tid": tid, "reg": "all", "fin": True, "smooth": False, "x": E.sl(1.0), "v": {"speed": E.sl(speed)}, "bal": {},
                   "eq": {}, "ineq": {}, "wave": True})
        offs = np.array([-0.3, -0.1, -0.02, 0.0, 0.02, 0.1, 0.3]) * width
        f1, f2 = call(xc1 + offs, t1), call(xc2 + offs, t1 + dt)
        for j in range(len(offs)):
            eq = {}
            for n in f1:
                a, b = f1[n][j], f2[n][j]
                if np.isfinite(a) and np.isfinite(b):
                    eq["steady." + n] = E.e8([b, -a], max(np.nanmax(np.abs(f1[n])), 1e-300) * 1e-3)
            # the thermodynamic fields of the public call at this point (C03: p = (gamma-1) rho e, e = Cv T_material)
            tn = "temperature" if "temperature" in f1 else "temperature_mat"
            v = {}
            if all(np.isfinite(f1[n][j]) for n in ("pressure", "density", "specific_internal_energy", tn)):
                v = {"p": E.sl(f1["pressure"][j]), "rho": E.sl(f1["density"][j]), "e": E.sl(f1["specific_internal_energy"][j]), "T": E.sl(f1[tn][j])}
            ev.append({"k": "Pt", "tid": tid, "reg": "all", "fin": True, "smooth": False, "x": E.sl(1.0), "v": v, "bal": {}, "eq": eq, "ineq": {}})
            stats["points"] += 1
    ev.append({"k": "End", "tid": tid})
    return ev, stats
