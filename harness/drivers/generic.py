"""Generic observation of the campaign families: build the solver of a campaign
state, a valid request, named float fields.  Used by the relation checks
(C07-C10) and by field-law checks of the non-hydrodynamic families."""
import contextlib
import importlib
import io
import math
import warnings

import numpy as np

from .. import encode as E

CLS = {
    "Noh": "exactpack.solvers.noh.noh1.Noh", "Noh2": "exactpack.solvers.noh2.noh2.Noh2",
    "Noh2Cog": "exactpack.solvers.noh2.noh2_cog.Noh2Cog",
    "Sedov": "exactpack.solvers.sedov.sedov.Sedov", "EHEP": "exactpack.solvers.ehep.ehep.EscapeOfHEProducts",
    "Mader": "exactpack.solvers.mader.timmes.Mader", "EPpiston": "exactpack.solvers.ep_piston.ep_piston.EPpiston",
    "Kenamond1": "exactpack.solvers.kenamond.kenamond1.Kenamond1", "Kenamond2": "exactpack.solvers.kenamond.kenamond2.Kenamond2",
    "Kenamond3": "exactpack.solvers.kenamond.kenamond3.Kenamond3", "DSDcyl": "exactpack.solvers.dsd.cylexpansion.CylindricalExpansion",
    "Blake": "exactpack.solvers.blake.blake.Blake", "Rod1D": "exactpack.solvers.heat.rod1d.Rod1D",
    "Hutchens1": "exactpack.solvers.heat.hutchens1.Hutchens1", "RodNH": "exactpack.solvers.heat.rod1d.Rod1D",
    "Guderley": "exactpack.solvers.guderley.guderley.Guderley",
    "RiemannIG": "exactpack.solvers.riemann.ep_riemann.IGEOS_Solver", "RiemannGen": "exactpack.solvers.riemann.ep_riemann.GenEOS_Solver",
}
for _n in [1, 2, 3, 4, 5, 6, 7, 8, 9, 10, 11, 12, 13, 14, 16, 17, 18, 19, 20, 21]:
    CLS["Cog%d" % _n] = "exactpack.solvers.cog.cog%d.Cog%d" % (_n, _n)

BC = {"BC1": (1, 0, 1, 0), "BC2": (0, 1, 0, 1), "BC3": (1, 0, 0, 1), "BC4": (0, 1, 1, 0),
      "RobinA": (1.0, -0.5, 1.0, 0.5), "RobinB": (2.0, -1.0, 1.0, 1.0)}
POSITION = ("position", "position_x", "position_y", "position_z", "radius", "position_r", "position_relative")


def cls_of(fam):
    mod, name = CLS[fam].rsplit(".", 1)
    return getattr(importlib.import_module(mod), name)


def preload():
    import os
    os.environ.setdefault("MPLBACKEND", "Agg")
    for f in CLS:
        cls_of(f)


def value(v):
    """campaign value -> python: int stays int, [n,d] -> float, list of [n,d] -> tuple of floats, str stays"""
    if isinstance(v, (int, str)):
        return v
    if isinstance(v, list) and len(v) == 2 and all(isinstance(x, int) for x in v):
        return v[0] / v[1]
    if isinstance(v, list):
        return tuple(value(x) for x in v)
    return v


def kwargs(state):
    fam = state["fam"]
    kw = {k: value(v) for k, v in state["par"].items()}
    g = state.get("geometry")
    if fam in ("Kenamond1", "Kenamond3"):
        kw["x_d"] = tuple(kw["x_d"][:kw["geometry"]])
    if fam in ("Rod1D", "RodNH"):
        a1, b1, a2, b2 = BC[kw.pop("bc")]
        kw.update(alpha1=a1, beta1=b1, alpha2=a2, beta2=b2)
        if fam == "RodNH":
            kw["gamma1"], kw["gamma2"] = kw.pop("g1"), kw.pop("g2")
    # documented dimensional defaults made explicit (so that a change of units can rescale them)
    if fam == "Kenamond2":
        sh = kw.pop("tshift", 0.0)
        kw.setdefault("dets", [10.0, 5.0, -5.0, -10.0]); kw.setdefault("t_d", [x + sh for x in (2.0, 1.0, 0.0, 1.0, 2.0)])
    if fam == "EHEP":
        kw.setdefault("xmax", 10.0); kw.setdefault("tmax", 10.0)
    if fam.startswith("Riemann"):
        # [xmin, xmax] (the general-EOS solver tabulates the solution there and nowhere else) contains the window of request()
        x0, t_ = kw.get("xd0", 0.5), abs(E.qf(state["t"]))
        kw.setdefault("xmin", min(0.0, x0 - 1.8 * t_ - 0.05)); kw.setdefault("xmax", max(1.0, x0 + 2.0 * t_ + 0.05))
    return kw


def build(fam, kw, bystander=False):     # superseded by harness/bystander.py (installed in every scan worker)
    """the solver of a campaign state.  It is never the only, nor the most recently constructed, solver of its class
    in the interpreter: a bystander with other parameter values is constructed (and dropped) after it, so that
    state shared between instances shows up in every scan (a refused bystander is simply not there)."""
    with contextlib.redirect_stdout(io.StringIO()), warnings.catch_warnings():
        warnings.simplefilter("ignore")
        obj = cls_of(fam)(**kw)
        if bystander:
            other = {k: (v * 1.37 if isinstance(v, float) and k not in ("geometry",) else v) for k, v in kw.items()}
            try:
                cls_of(fam)(**other)
            except Exception:
                pass
        return obj


def request(fam, kw, t, n=5):
    """points (ndarray in the shape the solver takes) inside the documented domain, away from
    documented singular points; lengths are multiples of the problem's own length scales so that
    the request scales with the problem."""
    lin = np.linspace
    if fam in ("Noh", "Cog19"):
        L = abs(kw["u0"]) * t
        return lin(0.07, 1.9, n) * L
    if fam == "Sedov":
        j, w = kw["geometry"], kw["omega"]
        rs = (kw["eblast"] / kw["rho0"]) ** (1.0 / (j + 2 - w)) * t ** (2.0 / (j + 2 - w))
        return lin(0.55, 1.25, n) * rs
    if fam == "EHEP":
        return lin(0.13, 2.7, n) * kw["xtilde"]
    if fam == "Mader":
        return lin(0.02, 0.98, 2 * n + 1) * kw["d_cj"] * t
    if fam == "EPpiston":
        c = math.sqrt((kw["c0"] ** 2 * kw["rho0"] + 4.0 / 3.0 * kw["G"]) / kw["rho0"])
        return lin(0.03, 1.6, n) * c * t
    if fam == "Kenamond1":
        g = kw["geometry"]
        base = np.array([[1.3, -0.4, 0.7], [-2.1, 1.7, -0.3], [0.2, 3.1, 1.9], [4.0, 0.6, -2.2], [-0.9, -2.8, 0.4]])[:n, :g]
        return base * kw["D"] + np.array(kw["x_d"])[None, :] * 0.5
    if fam in ("Kenamond2", "Kenamond3"):
        g = kw["geometry"]
        R = kw["R"]
        base = np.array([[0.2, 1.4, 0.1], [1.2, -1.5, 0.3], [-1.6, 0.9, -0.5], [2.3, 2.0, 0.8], [-0.4, -2.6, -1.1], [0.05, -1.9, 0.02]])[:n + 1]
        if fam == "Kenamond2":
            base = np.vstack([base, [[0.1, 0.5, 0.2], [-0.3, 0.2, 0.4]]])
        cols = [0, 1] if g == 2 else [0, 2, 1]          # 3-D problems take (x, y, z) with z the axis
        return base[:, cols] * R
    if fam == "DSDcyl":
        r = lin(1.05 * kw["r_1"], 1.4 * kw["r_2"], n)
        th = lin(0.3, 4.0, n)
        return np.stack([r * np.cos(th), r * np.sin(th)], axis=1)
    if fam == "Blake":
        return lin(1.0, 6.0, n) * kw["cavity_radius"]
    if fam == "Guderley":
        return lin(0.08, 1.9, 2 * n + 1)
    if fam in ("Rod1D", "RodNH"):
        return lin(0.08, 0.93, n) * kw["L"]
    if fam == "Hutchens1":
        return lin(0.1, 0.93, n) * kw["b"]
    if fam.startswith("Riemann"):
        return kw.get("xd0", 0.5) + lin(-1.7, 1.9, 2 * n + 1) * t
    return lin(0.2, 1.7, n)


def call(solver, pts, t):
    with warnings.catch_warnings():
        warnings.simplefilter("ignore")
        with np.errstate(all="ignore"), contextlib.redirect_stdout(io.StringIO()):
            return solver(pts, t)


def fields(sol):
    out = {}
    for n in sol.dtype.names:
        if n in POSITION:
            continue
        a = np.asarray(sol[n])
        if a.dtype.kind != "f":
            continue
        out[n.replace(" ", "_")] = a.astype(float)
    return out


def scale_value(v, dim, sc):
    f = 1.0
    for u, d in zip(("M", "L", "T", "K"), dim):
        f *= E.qf(sc[u]) ** E.qf(d)
    if isinstance(v, tuple):
        return tuple(x * f for x in v)
    if isinstance(v, list):
        return [x * f for x in v]
    return v * f
