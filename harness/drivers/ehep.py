"""Scan driver for the escape-of-HE-products problem.  The solver labels every point
with its region ('I'..'V', '00', '0H', '0V'); the scan uses those labels: a finite-difference
stencil is smooth when all its points carry one label; region boundaries are located by
bisection on the label; across a boundary the fields must be continuous (characteristics)
except at the detonation front, where the CJ jump conditions must hold."""
import math
import numpy as np

from .. import encode as E
from .. import measure as M
from . import generic as G

FIELDS = ("rho", "u", "p", "e", "c")


def preload():
    G.cls_of("EHEP")


class Ev:
    def __init__(self, solver):
        self.s, self.points = solver, 0

    def __call__(self, x, t):
        x = np.atleast_1d(np.asarray(x, float))
        self.points += x.size
        sol = G.call(self.s, x, t)
        f = M.fields_of(sol)
        f["reg"] = np.array([str(r) for r in sol["region"]])
        return f


def boundary(F, t, xa, xb, la):
    """position in [xa, xb] where the label stops being la (bisection on the label)"""
    for _ in range(200):
        xm = 0.5 * (xa + xb)
        if xm == xa or xm == xb:
            break
        if F(np.array([xm]), t)["reg"][0] == la:
            xa = xm
        else:
            xb = xm
    return xa, xb


def scan(state, groups, tid):
    kw = G.kwargs(state)
    t = E.qf(state["t"])
    solver = G.build("EHEP", kw)
    F = Ev(solver)
    D, gam, rho0 = kw["D"], 3.0, kw["rho_0"]
    xhi = min(kw["xmax"] * 0.999, max(1.6 * D * t, 1.5 * kw["xtilde"]))
    x = np.linspace(1e-3 * xhi, xhi, 61)
    f = F(x, t)
    par = {"gm1": E.sl(gam - 1), "gamma": E.sl(gam)}
    ev = [{"k": "Cfg", "tid": tid, "fam": "EHEP", "groups": sorted(groups), "par": par, "geometry": 1}]
    stats = {"points": 0, "jumps": 0, "pattern": "-".join(sorted(set(f["reg"])))}
    terms = None
    if "PDE" in groups:
        h = 1e-4 * xhi * np.ones_like(x)
        ht = 1e-4 * t
        Sr = M.stencil_r(F_num(F), x, t, h, 2)
        St = M.stencil_t(F_num(F), x, t, ht)
        lab_r = F(np.concatenate([x - 2 * h, x + 2 * h]), t)["reg"].reshape(2, -1)
        lab_t = np.stack([F(x, t - 2 * ht)["reg"], F(x, t + 2 * ht)["reg"]])
        smooth = (lab_r[0] == f["reg"]) & (lab_r[1] == f["reg"]) & (lab_t[0] == f["reg"]) & (lab_t[1] == f["reg"])
        terms = (Sr, St, h, ht, smooth)
    prev_lab, prev_x = None, None
    for i in range(len(x)):
        lab = f["reg"][i]
        if prev_lab is not None and lab != prev_lab:
            xa, xb = boundary(F, t, prev_x, x[i], prev_lab)
            fl, fr = F(np.array([xa]), t), F(np.array([xb]), t)
            L = {k: float(fl[k][0]) for k in FIELDS}; Rr = {k: float(fr[k][0]) for k in FIELDS}
            if fr["reg"][0] == "0H":
                # detonation front: speed from its located positions at t -/+ dt
                dt_ = 1e-3 * t
                (xa1, _), (xa2, _) = boundary(F, t - dt_, xa * 0.99, xa * 1.01, fl["reg"][0]), boundary(F, t + dt_, xa * 0.99, xa * 1.01, fl["reg"][0])
                s = (xa2 - xa1) / (2 * dt_)
                q = s * s / (2.0 * (gam * gam - 1.0))         # CJ heat release for this front speed
                wl, wr = L["u"] - s, Rr["u"] - s
                ml, mr = L["rho"] * wl, Rr["rho"] * wr
                ev.append({"k": "Jump", "tid": tid, "kind": "detonation", "ahead": "R",
                           "bal": {"mass": E.e8([ml, -mr]), "mom": E.e8([ml * wl, L["p"], -mr * wr, -Rr["p"]]),
                                   "ener": E.e8([ml * (L["e"] + wl * wl / 2), L["p"] * wl, -mr * (Rr["e"] + q + wr * wr / 2), -Rr["p"] * wr])},
                           "cj": E.e8([L["u"] + L["c"], -s]), "s": E.sl(s), "x": E.sl(xa),
                           "L": {k: E.sl(v) for k, v in L.items()}, "R": {k: E.sl(v) for k, v in Rr.items()}})
            elif fl["reg"][0] == "00" or (fl["reg"][0] == "0H" and fr["reg"][0] in ("0V", "None")):
                # the piston face / the end of the charge: material boundaries, no law of their own
                ev.append({"k": "Jump", "tid": tid, "kind": "piston" if fl["reg"][0] == "00" else "interface", "ahead": "R", "bal": {},
                           "s": E.sl(0), "x": E.sl(xa), "L": {}, "R": {}})
            else:
                sc = {"rho": rho0, "u": D, "p": rho0 * D * D, "e": D * D, "c": D}
                # into the void the gas thins out continuously; the velocity of a vacuum is undefined
                names = [k for k in FIELDS if not (fr["reg"][0] == "0V" and k in ("u", "e"))]
                ev.append({"k": "Jump", "tid": tid, "kind": "cont", "ahead": "R",
                           "bal": {k: E.e8([L[k], -Rr[k]], 1e-2 * sc[k]) for k in names},
                           "s": E.sl(0), "x": E.sl(xa), "L": {k: E.sl(v) for k, v in L.items()}, "R": {k: E.sl(v) for k, v in Rr.items()}})
            stats["jumps"] += 1
        fin = all(np.isfinite(f[k][i]) for k in FIELDS)
        e_ = {"k": "Pt", "tid": tid, "reg": lab, "fin": bool(fin), "smooth": False, "x": E.sl(x[i]),
              "v": {k: E.sl(f[k][i]) for k in FIELDS} if fin else {}, "bal": {}}
        if terms is not None and fin and f["rho"][i] > 0:
            Sr, St, h, ht, smooth = terms
            rho, u, p, e = f["rho"][i], f["u"][i], f["p"][i], f["e"][i]
            if smooth[i]:
                def dr(n):
                    a = Sr[n][i]
                    return M.d1(a[0], a[1], a[3], a[4], h[i])
                def dt(n):
                    a = St[n][i]
                    return M.d1(a[0], a[1], a[3], a[4], ht)
                S = abs(u) + math.sqrt(abs(e)) + D
                Lc = max(x[i], 0.1 * xhi)
                vals = {"mass": ([dt("rho"), u * dr("rho"), rho * dr("u"), 0.0], 1e-3 * rho0 * S / Lc),
                        "mom": ([dt("u"), u * dr("u"), dr("p") / rho], 1e-3 * S * S / Lc),
                        "ener": ([dt("e"), u * dr("e"), p / rho * dr("u"), 0.0], 1e-3 * S ** 3 / Lc)}
                if all(np.isfinite(v).all() for v, _ in [(np.array(a), b) for a, b in vals.values()]):
                    e_["bal"] = {n: E.e8(a, b) for n, (a, b) in vals.items()}
                    e_["smooth"] = True
        ev.append(e_)
        stats["points"] += 1
        prev_lab, prev_x = lab, x[i]
    ev.append({"k": "End", "tid": tid})
    stats["evals"] = F.points
    return ev, stats


def F_num(F):
    def g(x, t):
        f = F(x, t)
        return {k: f[k] for k in FIELDS}
    return g
