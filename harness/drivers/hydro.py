"""Scan driver for 1-D hydrodynamic families with closed-form solutions
(Noh, Noh2, Noh2Cog, Coggeshall 1-21).  Turns one campaign state (printed by
TLC from spec/Campaign.tla) into a scan trace for spec/TraceScan.tla.

The driver knows how to *observe* a solver (where to look, how to build its
constructor call); the laws, term counts, tolerances and region grammar live
in the specification."""
import contextlib
import importlib
import io
import math
import numpy as np

from .. import encode as E
from .. import measure as M

C_LIGHT = 2.997e10   # cm/s   (constants documented with the conducting Coggeshall problems)
A_RAD = 1.3720e+02   # erg cm^-3 eV^-4

CLASSES = {"Noh": ("exactpack.solvers.noh", "Noh"),
           "Noh2": ("exactpack.solvers.noh2", "Noh2"),
           "Noh2Cog": ("exactpack.solvers.noh2.noh2_cog", "Noh2Cog")}
for _n in [1, 2, 3, 4, 5, 6, 7, 8, 9, 10, 11, 12, 13, 14, 16, 17, 18, 19, 20, 21]:
    CLASSES["Cog%d" % _n] = ("exactpack.solvers.cog", "Cog%d" % _n)


def preload():
    for fam in CLASSES:
        solver_class(fam)


def solver_class(fam):
    mod, cls = CLASSES[fam]
    return getattr(importlib.import_module(mod), cls)


def kwargs_of(par):
    kw = {}
    for k, v in par.items():
        kw[k] = int(v) if isinstance(v, int) else E.qf(v)
    return kw


def gamma_of(state):
    g = state["gammaQ"]
    if g[0] == 0 and g[1] == 1:
        return E.qf(state["par"]["gamma"])
    return g[0] / g[1]


def window(fam, kw, t):
    """where to look (not what to expect)"""
    if fam == "Cog7":
        s = math.sqrt(kw["tau"] ** 2 - t ** 2) / kw["tau"]
        return kw["Ri"] * s * 1.02, kw["R0"] * s * 0.98
    return 1e-2, 1e2


def scan_points(a, b, jumps, n=14):
    if jumps:
        pts = []
        edges = [a] + list(jumps) + [b]
        for i in range(len(edges) - 1):
            lo, hi = edges[i], edges[i + 1]
            fr = np.array([0.03, 0.15, 0.4, 0.7, 0.9, 0.98, 0.999])
            if i == 0:
                # interior of the innermost region: measured from the jump downwards
                pts += list(hi * np.array([0.02, 0.1, 0.3, 0.6, 0.85, 0.97, 0.999]))
            else:
                pts += list(lo * np.array([1.001, 1.03, 1.2, 1.7, 3.0, 8.0]))
        pts = sorted(p for p in pts if a <= p <= b)
        return np.array(pts)
    return np.geomspace(a, b, n + 2)[1:-1]


def region_of(r, jumps, regions_ordered):
    idx = sum(1 for s in jumps if r > s)
    return regions_ordered[min(idx, len(regions_ordered) - 1)]


REG_ORDER = {("post", "pre"): ["post", "pre"]}


def ordered_regions(row):
    regs = row["regions"]
    if set(regs) == {"post", "pre"}:
        return ["post", "pre"]
    return list(regs)


def speed_scale(f, i=None):
    u = np.abs(f["u"])
    e = np.sqrt(np.abs(f["e"])) if "e" in f else 0 * u
    return np.maximum(np.maximum(u, e), 1e-300)


def pde_terms(F, state, kw, r, t, gamma):
    """balance-term vectors of the documented PDEs at points r (arrays)."""
    fam = state["fam"]
    form = state["row"]["pde"]
    k = state["geometry"] - 1
    tref = kw.get("tau", 0.0) / 4.0
    ht = 1e-3 * max(abs(t), tref, 1e-3)
    h = 1e-3 * r
    width = 4 if form in ("cogdiv", "cogfull") else 2
    Sr = M.stencil_r(F, r, t, h, width)
    St = M.stencil_t(F, r, t, ht)
    m = width
    rho, u = Sr["rho"][:, m], Sr["u"][:, m]
    rho_r, u_r = M.dr(Sr, "rho", h), M.dr(Sr, "u", h)
    rho_t, u_t = M.dt(St, "rho", ht), M.dt(St, "u", ht)
    f0 = {kk: Sr[kk][:, m] for kk in Sr}
    S = speed_scale(f0)
    out = {}
    # momentum: the scale is S^2 / r - except where the velocity is EXACTLY uniform and steady on the stencil (its differences are
    # exact zeros, not round-off): there the equation is a statement about the pressure gradient alone and the thermal speed sets
    # the scale (Cog10: u = 1e12, thermal terms 1: S^2 / r would drown them)
    u_flat = np.all(Sr["u"] == Sr["u"][:, m:m + 1], axis=1) & np.all(St["u"] == Sr["u"][:, m:m + 1], axis=1)
    out["mass"] = ([rho_t, u * rho_r, rho * u_r, k * rho * u / r], 1e-3 * np.abs(rho) * S / r)
    if form == "euler":
        p, e = f0["p"], f0["e"]
        p_r = M.dr(Sr, "p", h)
        e_r, e_t = M.dr(Sr, "e", h), M.dt(St, "e", ht)
        with np.errstate(all="ignore"):
            pr = np.where(rho != 0, p_r / rho, 0.0)
            por = np.where(rho != 0, p / rho, 0.0)
        out["mom"] = ([u_t, u * u_r, pr], 1e-3 * np.where(u_flat, np.abs(por), S * S) / r)
        # the scale of the energy equation is (e + p/rho) S / r, not S^3 / r: in a hypersonic flow S^3 would drown every term
        out["ener"] = ([e_t, u * e_r, por * u_r, por * k * u / r], 1e-3 * (np.abs(e) + np.abs(por)) * S / r)
    else:
        G = kw["Gamma"]
        T = f0["T"]
        T_r, T_t = M.dr(Sr, "T", h), M.dt(St, "T", ht)
        with np.errstate(all="ignore"):
            lr = np.where(rho != 0, rho_r / rho, 0.0)
        out["mom"] = ([u_t, u * u_r, G * T * lr, G * T_r], 1e-3 * np.where(u_flat, G * np.abs(T), S * S) / r)
        cv = G / (gamma - 1.0)
        fl = 0 * r
        if form in ("cogdiv", "cogfull"):
            al = E.qf(state["cond"]["alpha"]); be = E.qf(state["cond"]["beta"])
            # T_r on the inner stencil j=-2..2 from the wide stencil
            Tw, rw = Sr["T"], Sr["rho"]
            Rw = r[:, None] + h[:, None] * np.arange(-width, width + 1)[None, :]
            def d_at(a, j):   # 4th order derivative centred at column m+j
                c = m + j
                return M.d1(a[:, c - 2], a[:, c - 1], a[:, c + 1], a[:, c + 2], h)
            if form == "cogfull":
                lam0 = kw["lambda0"]
                Fj = []
                for j in (-2, -1, 0, 1, 2):
                    c = m + j
                    with np.errstate(all="ignore"):
                        Fj.append(-(4 * C_LIGHT * A_RAD * lam0 / 3.0) * rw[:, c] ** al * Tw[:, c] ** (be + 3) * d_at(Tw, j))
                F_r = M.d1(Fj[0], Fj[1], Fj[3], Fj[4], h)
                with np.errstate(all="ignore"):
                    fl = (F_r + k * Fj[2] / r) / rho
            else:
                # r^k F independent of r, F ~ rho^alpha T^(beta+3) T_r:
                Tr_j = [d_at(Tw, j) for j in (-2, -1, 0, 1, 2)]
                T_rr = M.d1(Tr_j[0], Tr_j[1], Tr_j[3], Tr_j[4], h)
                with np.errstate(all="ignore"):
                    q = np.where(T_r != 0, T_rr / np.where(T_r != 0, T_r, 1.0), 0.0)
                    zero = (T_r == 0)
                    terms = [np.where(zero, 0.0, k / r), np.where(zero, 0.0, al * lr),
                             np.where(zero, 0.0, (be + 3) * T_r / T), q]
                out["flux"] = (terms, 1e-3 / r)
        out["ener"] = ([cv * T_t, cv * u * T_r, G * T * u_r, G * T * k * u / r, fl], 1e-3 * (cv + G) * np.abs(T) * S / r)
    return out, 3 * h, ht


def jump_event(F, tid, t, xs, x_m, x_p, dt_, delta=1e-8):
    s = (x_p - x_m) / (2 * dt_)
    f = F(np.array([xs * (1 - delta), xs * (1 + delta)]), t)
    L = {k: float(v[0]) for k, v in f.items()}
    R = {k: float(v[1]) for k, v in f.items()}
    if not all(np.isfinite(list(L.values()) + list(R.values()))):
        return None, s
    wl, wr = L["u"] - s, R["u"] - s
    ml, mr = L["rho"] * wl, R["rho"] * wr
    bal = {"mass": E.e8([ml, -mr]),
           "mom": E.e8([ml * wl, L["p"], -mr * wr, -R["p"]]),
           "ener": E.e8([ml * (L["e"] + wl * wl / 2), L["p"] * wl, -mr * (R["e"] + wr * wr / 2), -R["p"] * wr])}
    ahead = "L" if (ml + mr) > 0 else "R"
    ev = {"k": "Jump", "tid": tid, "kind": "shock", "ahead": ahead, "bal": bal,
          "s": E.sl(s), "x": E.sl(xs),
          "L": {k: E.sl(v) for k, v in L.items()}, "R": {k: E.sl(v) for k, v in R.items()}}
    return ev, s


def scan(state, groups, tid):
    """one campaign state -> list of trace events (+ stats dict)"""
    fam = state["fam"]
    kw = kwargs_of(state["par"])
    t = E.qf(state["t"])
    gamma = gamma_of(state)
    cls = solver_class(fam)
    with contextlib.redirect_stdout(io.StringIO()):
        solver = cls(**kw)
    F = M.Evaluator(solver)
    a, b = window(fam, kw, t)
    row = state["row"]
    regs = ordered_regions(row)
    par = {"gm1": E.sl(gamma - 1.0), "gamma": E.sl(gamma)}
    if "Gamma" in kw:
        par["Gam"] = E.sl(kw["Gamma"])
    ev = [{"k": "Cfg", "tid": tid, "fam": fam, "groups": sorted(groups), "par": par,
           "geometry": state["geometry"]}]
    grid = np.geomspace(a, b, 500)
    jumps = M.locate_jumps(F, t, a, b, grid=grid) if len(regs) > 1 or "RH" in groups else []
    # positions of the jumps at neighbouring times (speed, guard bands)
    dt_ = 1e-4 * max(abs(t), 1e-3)
    jinfo = []
    for xs in jumps:
        xm = M.locate_jumps(F, t - dt_, xs * 0.99, xs * 1.01, n=40)
        xp = M.locate_jumps(F, t + dt_, xs * 0.99, xs * 1.01, n=40)
        if len(xm) == 1 and len(xp) == 1:
            jinfo.append((xs, xm[0], xp[0]))
        else:
            jinfo.append((xs, xs, xs))
    r = scan_points(a, b, jumps)
    f = F(r, t)
    fin = np.ones(r.shape, bool)
    for kname, v in f.items():
        fin &= np.isfinite(v)
    terms = None
    if "PDE" in groups:
        terms, band, ht = pde_terms(F, state, kw, r, t, gamma)
        smooth = np.ones(r.shape, bool)
        for (xs, xm, xp) in jinfo:
            sp = abs(xp - xm) / (2 * dt_)
            smooth &= np.abs(r - xs) > (band * 1.5 + 3 * sp * ht + 1e-9 * xs)
    stats = {"points": int(r.size), "jumps": len(jumps)}
    jpos = [j[0] for j in jinfo]
    emitted_j = 0
    for i in range(r.size):
        # jump events between points
        while emitted_j < len(jinfo) and jinfo[emitted_j][0] < r[i]:
            if i > 0:
                xs, xm, xp = jinfo[emitted_j]
                je, s = jump_event(F, tid, t, xs, xm, xp, dt_)
                if je is not None:
                    ev.append(je)
            emitted_j += 1
        e = {"k": "Pt", "tid": tid, "reg": region_of(r[i], jpos, regs), "fin": bool(fin[i]),
             "x": E.sl(r[i]) if np.isfinite(r[i]) else E.sl(0), "smooth": True, "v": {}, "bal": {}}
        if fin[i]:
            e["v"] = {kname: E.sl(v[i]) for kname, v in f.items()}
            if terms is not None:
                e["smooth"] = bool(smooth[i])
                ok = True
                for name, (ts, floor) in terms.items():
                    vals = [float(np.asarray(x_)[i]) if np.ndim(x_) else float(x_) for x_ in ts]
                    if not all(math.isfinite(v_) for v_ in vals):
                        ok = False
                        break
                    e["bal"][name] = E.e8(vals, float(np.asarray(floor)[i]) if np.ndim(floor) else float(floor))
                if not ok:
                    # the stencil left the domain where the solver returns finite values
                    e["smooth"] = False
                    e["bal"] = {}
        ev.append(e)
    ev.append({"k": "End", "tid": tid})
    stats["evals"] = F.points
    return ev, stats
