"""Orchestration shared by all property checks: campaign enumeration by TLC,
trace validation by TLC, known-findings filter, evidence, verdict lines."""
import hashlib, json, os, subprocess, sys, time

from . import tlc

VERIF = tlc.VERIF
EVID = os.path.join(VERIF, "evidence")
REPLAYS = os.path.join(VERIF, "replays")
FINDINGS = os.path.join(VERIF, "KNOWN_FINDINGS.json")


def seed():
    try:
        return int(os.environ.get("VERIF_SEED", "0"))
    except ValueError:
        return 0


def write_cfg(path, lines):
    with open(path, "w") as f:
        f.write("\n".join(lines) + "\n")


def tla_set(strs):
    return "{" + ",".join('"%s"' % s for s in strs) + "}"


def enumerate_campaign(camps, tier, tag, module="Campaign", extra_consts=None):
    """TLC enumerates the configurations of the named campaigns; returns
    (list of states, tlc result)."""
    wd = tlc.workdir("camp_" + tag)
    cfg = os.path.join(wd, "camp.cfg")
    lines = ["SPECIFICATION Spec", "CONSTANTS", "  Camps = %s" % tla_set(camps),
             '  Tier = "%s"' % tier]
    for k, v in (extra_consts or {}).items():
        lines.append("  %s = %s" % (k, v))
    lines.append("INVARIANT Emit")
    write_cfg(cfg, lines)
    res = tlc.must(tlc.run(module, cfg, "camp_" + tag, workers=1))
    seen, states = set(), []
    for s in res["json"]:
        key = json.dumps(s, sort_keys=True)
        if key not in seen:
            seen.add(key)
            states.append(s)
    states.sort(key=lambda s: json.dumps(s, sort_keys=True))
    return states, res


CHUNK = 120000


def validate_trace(module, cfg, events, tag, timeout=3600, boundary=None):
    """Write events to a JSON file, run the trace specification over it.
    Returns dict(failed=[{tid,i,failed}], accepted=bool, states=int, res=...).
    boundary(e) says that the trace specification is back in its initial state after event e: a long
    trace is then validated in pieces (one TLC run each; TLC's JSON reader gives up on half a gigabyte)."""
    if boundary is not None and len(events) > CHUNK:
        parts, start = [], 0
        while start < len(events):
            end = min(start + CHUNK, len(events))
            while end < len(events) and not boundary(events[end - 1]):
                end += 1
            parts.append((start, end)); start = end
        tot = {"failed": [], "accepted": True, "states": 0, "generated": 0, "depth": 0, "wall": 0.0, "path": None, "out": ""}
        for a, b in parts:
            r = validate_trace(module, cfg, events[a:b], tag, timeout)
            for fl in r["failed"]:
                fl["i"] += a
            tot["failed"] += r["failed"]
            tot["states"] += r["states"]; tot["generated"] += r["generated"]; tot["wall"] += r["wall"]
            tot["path"], tot["out"] = r["path"], r["out"]
            if tot["accepted"]:
                tot["depth"] = a + r["depth"]
                tot["accepted"] = r["accepted"]
        return tot
    wd = tlc.workdir("trace_" + tag)
    path = os.path.join(wd, "trace.json")
    with open(path, "w") as f:
        json.dump(events, f)
    res = tlc.run(module, cfg, "trace_" + tag, env={"TRACE_FILE": path}, workers=1,
                  timeout=timeout, javaopts=["-Xmx8g"])
    failed = [j for j in res["json"] if "failed" in j]
    accepted = res["ok"]
    if not accepted and not res["out"].count("Accepted"):
        # neither a clean finish nor a postcondition failure: machinery problem
        raise tlc.TLCError("trace validation crashed (%s): %s\n%s" % (module, res["error"], "\n".join(res["out"].splitlines()[-30:])))
    return {"failed": failed, "accepted": accepted, "states": res.get("distinct", 0),
            "generated": res.get("states", 0), "depth": res.get("depth", 0), "wall": res["wall"],
            "path": path, "out": res["out"]}


# ----------------------------------------------------------------- findings
def load_findings():
    if not os.path.exists(FINDINGS):
        return []
    with open(FINDINGS) as f:
        return json.load(f).get("findings", [])


def match_finding(prop, key, findings):
    """key: dict(cls=, clause=, region=, cfg=...) ; an open finding matches when
    property, cls, clause (prefix*) agree and its guard holds on key['cfg']."""
    for fd in findings:
        if fd.get("status") != "open" or fd.get("property") != prop:
            continue
        if fd.get("cls") not in ("*", key.get("cls")):
            continue
        cls_ = fd.get("clause", "*")
        if not any(cl == "*" or cl == key.get("clause") or (cl.endswith("*") and key.get("clause", "").startswith(cl[:-1]))
                   for cl in (cls_ if isinstance(cls_, list) else [cls_])):
            continue
        if fd.get("region", "*") not in ("*", key.get("region")):
            continue
        guard = fd.get("guard", "True")
        try:
            ok = bool(eval(guard, {"__builtins__": {}}, dict(key.get("cfg", {}), abs=abs, min=min, max=max, str=str)))
        except Exception:
            ok = False
        if ok:
            return fd
    return None


# ----------------------------------------------------------------- evidence
def write_evidence(prop, tier, level, coverage, wall, violations, assumptions=None):
    os.makedirs(EVID, exist_ok=True)
    ev = {"property_id": prop, "tier": tier, "seed": seed(), "level": level,
          "coverage": coverage, "wall_s": round(wall, 2), "violations": int(violations),
          "assumptions": assumptions or []}
    path = os.path.join(EVID, prop + ".json")
    with open(path, "w") as f:
        json.dump(ev, f, indent=1, sort_keys=True)
    # schema validation with the tooling venv's jsonschema (machinery failure if invalid)
    code = ("import json,sys,jsonschema;"
            "jsonschema.validate(json.load(open(sys.argv[1])), json.load(open('/root/.vp/EVIDENCE.schema.json')))")
    if os.path.exists("/root/.vp/EVIDENCE.schema.json"):
        p = subprocess.run(["python3-vt", "-c", code, path], capture_output=True, text=True)
        if p.returncode != 0:
            raise RuntimeError("evidence does not validate: " + p.stderr[-2000:])
    return path


def write_replay(prop, payload):
    d = os.path.join(REPLAYS, prop)
    os.makedirs(d, exist_ok=True)
    blob = json.dumps(payload, sort_keys=True, default=str)
    h = hashlib.sha256(blob.encode()).hexdigest()[:12]
    path = os.path.join(d, h + ".json")
    with open(path, "w") as f:
        f.write(blob)
    return path


class Verdict:
    """collects violations / known findings and prints the contract lines"""

    def __init__(self, prop):
        self.prop = prop
        self.findings = load_findings()
        self.violations = []     # (key, payload)
        self.known = {}          # finding what -> count

    def fail(self, key, payload):
        fd = match_finding(self.prop, key, self.findings)
        if fd is not None:
            self.known.setdefault(fd["what"], 0)
            self.known[fd["what"]] += 1
        else:
            self.violations.append((key, payload))

    def finish(self, max_lines=8):
        for what, n in sorted(self.known.items()):
            print("KNOWN-FINDING: property=%s %s (%d occurrences)" % (self.prop, what, n))
        # group violations by (cls, clause)
        groups = {}
        for key, payload in self.violations:
            groups.setdefault((key.get("cls"), key.get("clause")), []).append((key, payload))
        shown = 0
        for g, items in sorted(groups.items(), key=lambda kv: str(kv[0])):
            key, payload = items[0]
            path = write_replay(self.prop, {"property": self.prop, "key": key, "payload": payload,
                                            "occurrences": len(items), "seed": seed()})
            if shown < max_lines:
                print("VIOLATION property=%s replay=%s  # %s %s x%d" % (self.prop, path, g[0], g[1], len(items)))
            shown += 1
        if shown > max_lines:
            print("# ... %d more violation groups" % (shown - max_lines))
        return 1 if self.violations else 0
