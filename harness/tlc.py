"""Run TLC / SANY from the harness; parse JSON lines printed by PrintT(ToJson(..))
and the statistics lines.  Exit status handling separates verdicts from
machinery failures (TLCError)."""
import json, os, re, shutil, subprocess, time

VERIF = os.path.dirname(os.path.dirname(os.path.abspath(__file__)))
SPEC = os.path.join(VERIF, "spec")
WORK = os.path.join(VERIF, ".work")
JAR = "/opt/veriftools/tla/tla2tools.jar:/opt/veriftools/tla/CommunityModules-deps.jar"


class TLCError(Exception):
    pass


def workdir(name):
    d = os.path.join(WORK, name)
    shutil.rmtree(d, ignore_errors=True)
    os.makedirs(d, exist_ok=True)
    return d


def _json_lines(out):
    res = []
    for line in out.splitlines():
        line = line.strip()
        if line.startswith('"{') and line.endswith('}"'):
            try:
                res.append(json.loads(json.loads(line)))
            except Exception:
                pass
    return res


def run(module, cfg, tag, env=None, workers=1, simulate=None, depth=None,
        seed=None, timeout=1800, coverage=False, extra=None, javaopts=None,
        deadlock=False, moddir=None):
    """Run TLC on spec/<module>.tla with spec/<cfg>. Returns dict with
    out, json (parsed PrintT lines), states, distinct, ok, error."""
    md = workdir("tlc_" + tag)
    cmd = ["java", "-XX:+UseParallelGC", "-Xss16m", "-DTLA-Library=" + SPEC]
    if javaopts:
        cmd += javaopts
    cmd += ["-cp", JAR, "tlc2.TLC", "-workers", str(workers), "-metadir", md,
            "-noGenerateSpecTE", "-config", os.path.join(moddir or SPEC, cfg)]
    if not deadlock:
        cmd += ["-deadlock"]
    if coverage:
        cmd += ["-coverage", "1"]
    if simulate is not None:
        cmd += ["-simulate", simulate]
    if depth is not None:
        cmd += ["-depth", str(depth)]
    if seed is not None:
        cmd += ["-seed", str(seed)]
    if extra:
        cmd += extra
    cmd += [os.path.join(moddir or SPEC, module + ".tla")]
    e = dict(os.environ)
    if env:
        e.update({k: str(v) for k, v in env.items()})
    t0 = time.time()
    try:
        p = subprocess.run(cmd, cwd=moddir or SPEC, env=e, capture_output=True, text=True,
                           timeout=timeout)
    except subprocess.TimeoutExpired:
        raise TLCError("TLC timeout (%s s) on %s" % (timeout, module))
    out = p.stdout + p.stderr
    res = {"out": out, "json": _json_lines(out), "rc": p.returncode,
           "wall": time.time() - t0, "module": module, "cfg": cfg}
    m = re.search(r"(\d+) states generated, (\d+) distinct states found", out)
    if m:
        res["states"] = int(m.group(1)); res["distinct"] = int(m.group(2))
    else:
        m = re.search(r"(\d+) states checked", out)
        res["states"] = res["distinct"] = int(m.group(1)) if m else 0
    m = re.search(r"The depth of the complete state graph search is (\d+)", out)
    res["depth"] = int(m.group(1)) if m else 0
    res["ok"] = ("Model checking completed. No error has been found." in out
                 or (simulate is not None and "Error:" not in out))
    res["invariant_violated"] = re.findall(r"Invariant (\S+) is violated", out)
    res["error"] = None
    if not res["ok"] and not res["invariant_violated"]:
        m = re.search(r"Error: (.*)", out)
        res["error"] = m.group(1) if m else "unknown TLC failure"
    shutil.rmtree(md, ignore_errors=True)
    return res


def must(res):
    """Raise TLCError unless the run finished without error."""
    if not res["ok"]:
        tail = "\n".join(res["out"].splitlines()[-40:])
        raise TLCError("TLC failed on %s/%s: %s\n%s" % (res["module"], res["cfg"], res["error"] or res["invariant_violated"], tail))
    return res


def coverage_counts(out):
    """per-action counts from -coverage output: {action: (distinct, total)}"""
    cov = {}
    for m in re.finditer(r"<(\w+) line \d+, col \d+ to line \d+, col \d+ of module (\w+)>: (\d+):(\d+)", out):
        cov[m.group(1)] = (int(m.group(3)), int(m.group(4)))
    return cov


def sany(module):
    p = subprocess.run(["java", "-cp", JAR, "tla2sany.SANY", os.path.join(SPEC, module + ".tla")],
                       cwd=SPEC, capture_output=True, text=True)
    out = p.stdout + p.stderr
    ok = p.returncode == 0 and "Semantic errors" not in out and "Parse Error" not in out and "***Parse" not in out and "Fatal" not in out
    return ok, out
