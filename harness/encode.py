"""Integer encodings shared with spec/Numbers.tla.

SL   sign/log numbers {"s": -1|0|1, "l": round(1e6*ln|x|)}   (micro-nepers)
E8   additive balances: each term / common scale, in units of 1e-8
DEV  relative deviation in units of 1e-9, clamped to +-2e9/2
Q    exact rationals [num, den]

Every integer that reaches TLC satisfies |n| < 2**31; a breach is a machinery
failure (EncodeError), never a verdict.
"""
import math
from fractions import Fraction

LIM = 2**31 - 1
E8 = 10**8


class EncodeError(Exception):
    pass


def chk(n):
    n = int(n)
    if abs(n) >= LIM:
        raise EncodeError("integer out of TLC range: %r" % n)
    return n


def sl(x):
    """sign/log encoding of a finite real."""
    x = float(x)
    if x != x or x in (float("inf"), float("-inf")):
        raise EncodeError("non-finite value in SL encoding: %r" % x)
    if x == 0.0:
        return {"s": 0, "l": 0}
    l = math.log(abs(x))
    if abs(l) > 1000:
        raise EncodeError("magnitude out of SL range: %r" % x)
    return {"s": 1 if x > 0 else -1, "l": chk(round(1e6 * l))}


def unsl(a):
    return a["s"] * math.exp(a["l"] * 1e-6)


def e8(terms, floor=0.0):
    """terms of an additive balance -> integers in units of 1e-8 of the common
    scale U = max(|terms|, floor).  All-zero terms with zero floor encode as 0."""
    ts = [float(t) for t in terms]
    for t in ts:
        if t != t or abs(t) == float("inf"):
            raise EncodeError("non-finite term in balance: %r" % (terms,))
    U = max([abs(t) for t in ts] + [abs(float(floor))])
    if U == 0.0:
        return [0 for _ in ts]
    return [chk(round(E8 * t / U)) for t in ts]


def dev9(x, ref, atol=0.0):
    """relative deviation of x from ref in units of 1e-9 (clamped)."""
    x = float(x); ref = float(ref)
    if x != x or ref != ref:
        return 0 if (x != x and ref != ref) else 10**9
    if x == ref:
        return 0
    d = abs(x - ref) / max(abs(x), abs(ref), atol)
    return min(10**9, int(round(d * 1e9)))


def q(x):
    """rational -> [num, den]"""
    f = Fraction(x)
    return [chk(f.numerator), chk(f.denominator)]


def qf(v):
    """[num, den] (or int) from a TLC campaign -> float"""
    if isinstance(v, (list, tuple)) and len(v) == 2:
        return v[0] / v[1]
    return float(v)


def qfrac(v):
    if isinstance(v, (list, tuple)) and len(v) == 2:
        return Fraction(v[0], v[1])
    return Fraction(v)
