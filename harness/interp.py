"""Replay of Interp behaviours (C06): every behaviour runs in a process forked
from a pristine parent (exactpack imported, no solver ever constructed), and
every Call is compared with an oracle: the same operations on that one object,
executed first in another fresh process."""
import contextlib
import io
import json
import os
import warnings

import numpy as np

from . import registry

PERM = [2, 0, 3, 1]


def request_variant(sp, variant, name):
    """(points list, indices into the 4 base points or None for extra points)"""
    base = sp.request(6)
    core = [base[1], base[2], base[3], base[4]]
    if sp.sorted_only and variant in ("perm", "dup"):
        variant = "full"
    if variant == "full":
        return core, [0, 1, 2, 3]
    if variant == "inner":
        # same number of points, same first and last point, the interior ones moved (a request that looks like the
        # previous one to anything keyed on shape and end points)
        def mid(a, b, w):
            if isinstance(a, tuple):
                return tuple((1 - w) * x + w * y for x, y in zip(a, b))
            return (1 - w) * a + w * b
        return [core[0], mid(core[1], core[2], 0.35), mid(core[2], core[3], 0.4), core[3]], [0, None, None, 3]
    if variant == "perm":
        return [core[i] for i in PERM], PERM
    if variant == "subset":
        if sp.min_n > 2:
            return core, [0, 1, 2, 3]
        return [core[1], core[2]], [1, 2]
    if variant == "superset":
        return [base[0]] + core + [base[5]], [None, 0, 1, 2, 3, None]
    if variant == "dup":
        return [core[0], core[1], core[1], core[2], core[3], core[0]], [0, 1, 1, 2, 3, 0]
    raise ValueError(variant)


def _build(name, cfg, dicts, dict_id):
    reg = registry.registry()
    sp = reg[name]
    kind, module, alt = registry.STATEFUL[name][:3]
    kwargs = dict(sp.kwargs)
    if cfg == 2:
        kwargs.update(alt)
    with contextlib.redirect_stdout(io.StringIO()), warnings.catch_warnings():
        warnings.simplefilter("ignore")
        if kind == "bbox":
            from exactpack.solvers.nohblackboxeos.equations_of_state.eos_library import ideal_gas_eos
            eos = ideal_gas_eos(5.0 / 3.0 if cfg == 1 else 1.4)
            d = dicts.setdefault(dict_id, {"density": 1, "velocity": -1, "pressure": 0, "symmetry": 2})
            o = sp.cls(eos, d)
            o.set_new_solver_initial_guess([35 if cfg == 1 else 200, 0.5, 0.5])
        else:
            o = sp.cls(*(sp.args() if callable(sp.args) else sp.args), **kwargs)
    return o


def _registry_name(name):
    return name


def run_ops(ops):
    """execute a behaviour; returns list (per op) of None or dict field -> list of floats per point"""
    reg = registry.registry()
    objs, dicts, out = {}, {}, []
    for op in ops:
        res = None
        try:
            if op["op"] == "Construct":
                objs[op["obj"]] = (_build(op["cls"], op["cfg"], dicts, op.get("dict", op["obj"])), op["cls"])
            elif op["op"] == "SetTol":
                objs[op["obj"]][0].set_new_solver_tolerance(registry.BBOX_TOL[op["tol"]])
            elif op["op"] == "Solve":
                with contextlib.redirect_stdout(io.StringIO()):
                    objs[op["obj"]][0].solve_jump_conditions()
            elif op["op"] == "Query":
                o, name = objs[op["obj"]]
                q = registry.QUERIES.get(name, {}).get(op["q"])
                if q is not None:
                    with warnings.catch_warnings():
                        warnings.simplefilter("ignore")
                        with np.errstate(all="ignore"), contextlib.redirect_stdout(io.StringIO()):
                            arg = [np.asarray(a, float) if isinstance(a, list) else a for a in q[1]]
                            getattr(o, q[0])(*arg)
            elif op["op"] == "Call":
                o, name = objs[op["obj"]]
                sp = reg[name]
                pts, idx = request_variant(sp, op["variant"], name)
                t = sp.t * (1.0 if op["t"] == 1 else 1.3)
                with warnings.catch_warnings():
                    warnings.simplefilter("ignore")
                    with np.errstate(all="ignore"), contextlib.redirect_stdout(io.StringIO()):
                        sol = o(sp.as_array(pts), t)
                res = {"idx": idx, "f": {}}
                for nm in sol.dtype.names:
                    a = np.asarray(sol[nm])
                    if a.dtype.kind == "f":
                        res["f"][nm] = [float(x) for x in a]
        except Exception as ex:
            res = {"raised": type(ex).__name__ + ": " + str(ex)[:120]}
        out.append(res)
    return out


def project(ops, i):
    """the operations that define call i for its object alone: its Construct, for the
    black-box solver every operation on the same object, and the call itself"""
    call = ops[i]
    o = call["obj"]
    cls = next(op["cls"] for op in ops[:i] if op["op"] == "Construct" and op["obj"] == o)
    bbox = registry.STATEFUL[cls][0] == "bbox"
    sel = []
    for op in ops[:i]:
        if op["obj"] != o:
            continue
        if op["op"] == "Construct" or (bbox and op["op"] in ("SetTol", "Solve", "Call")):
            q = dict(op)
            if q["op"] == "Construct":
                q["dict"] = o       # its own dictionary
            sel.append(q)
    sel.append(dict(call))
    return sel


def _task(ops):
    try:
        return run_ops(ops)
    except Exception as ex:
        return [{"raised": "replay crashed: %s" % ex}] * len(ops)


def compare(res, ref, tol_rel=1e-9):
    """max relative deviation (units of 1e-9, clamped) between the values of a call and its
    oracle, over fields and requested points; None if either raised"""
    if res is None or ref is None or "raised" in res or "raised" in ref:
        return None
    worst = 0
    for nm, vals in res["f"].items():
        rv = ref["f"].get(nm)
        if rv is None or len(rv) != len(vals):
            return 10**9
        a, b = np.array(vals), np.array(rv)
        scale = max(np.nanmax(np.abs(b)) if np.any(np.isfinite(b)) else 0.0, 1e-300)
        both_nan = np.isnan(a) & np.isnan(b)
        d = np.abs(a - b) / np.maximum(np.maximum(np.abs(a), np.abs(b)), 1e-6 * scale)
        d = np.where(both_nan | (a == b), 0.0, d)
        d = np.where(np.isnan(d), 1.0, d)
        worst = max(worst, int(min(1e9, round(float(np.max(d)) * 1e9))))
    return worst


def batch_task(args):
    """batch independence for one class / parameter set: a shuffled request with a duplicate
    and the documented edge points, against one-point requests (fresh objects)."""
    name, alt, seed = args
    import random
    reg = registry.registry()
    sp = reg[name]
    out = {"cls": name, "cfg": 2 if alt else 1, "dev": 0, "raised": False, "points": 0, "worst": None}
    try:
        pts = list(sp.request(5)) + list(sp.edges)
        rng = random.Random(seed * 31 + len(name))
        pts = pts + [pts[1]]
        rng.shuffle(pts)
        with warnings.catch_warnings():
            warnings.simplefilter("ignore")
            with np.errstate(all="ignore"), contextlib.redirect_stdout(io.StringIO()):
                big = sp.build(alt=alt)(sp.as_array(pts), sp.t)
                worst = 0
                for i, p in enumerate(pts):
                    try:
                        one = sp.build(alt=alt)(sp.as_array([p]), sp.t)
                    except Exception:
                        out["solo_raised"] = out.get("solo_raised", 0) + 1   # e.g. a validity domain tied to max(x): not comparable
                        continue
                    for nm in big.dtype.names:
                        a = np.asarray(big[nm])
                        if a.dtype.kind != "f":
                            if str(a[i]) != str(np.asarray(one[nm])[0]):
                                worst = 10**9; out["worst"] = [nm, repr(p), str(a[i]), str(np.asarray(one[nm])[0])]
                            continue
                        x, y = float(a[i]), float(np.asarray(one[nm])[0])
                        if x == y or (x != x and y != y):
                            continue
                        scale = float(np.nanmax(np.abs(a))) if np.any(np.isfinite(a)) else 0.0
                        d = abs(x - y) / max(abs(x), abs(y), 1e-6 * scale, 1e-300) if (x == x and y == y) else 1.0
                        dv = int(min(1e9, round(d * 1e9)))
                        if dv > worst:
                            worst = dv; out["worst"] = [nm, repr(p), x, y]
                out["dev"] = worst; out["points"] = len(pts)
    except Exception as ex:
        out["raised"] = True; out["error"] = type(ex).__name__ + ": " + str(ex)[:200]
    return out
