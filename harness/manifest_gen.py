"""Generates MANIFEST.json from the table below (kept in one place so the
manifest always validates).  Run: /venv/bin/python -m harness.manifest_gen"""
import json, os

VERIF = os.path.dirname(os.path.dirname(os.path.abspath(__file__)))
BASE = ("cd /repo && /venv/bin/python -m pytest -ra -q -p no:cacheprovider --timeout=900 "
        "--continue-on-collection-errors")

from .manifest_table import CHECKS, PENDING


def build():
    checks = []
    for pid in sorted(CHECKS):
        cat, text, note, tech, ref = CHECKS[pid]
        checks.append({
            "property_id": pid,
            "quick_cmd": "./check %s --tier quick" % pid,
            "thorough_cmd": "./check %s --tier thorough" % pid,
            "evidence_file": "/verif/evidence/%s.json" % pid,
            "replay_cmd_template": "./check %s --replay {path}" % pid,
            "engine": "tlc",
            "level_claimed": {"category": cat, "text": text, "design_ref": ref},
            "level_note": note,
            "technique": tech})
    man = {
        "version": 1,
        "setup_cmd": "cd /verif && ./setup.sh",
        "hooks": {"guard": "EXACTPACK_VERIF", "enable": "none needed: the library is sequential and every abstract state is observable through the public API; the harness wraps calls at run time (no source hooks)",
                  "baseline_off_cmd": BASE, "source_commits": [], "add_only": True},
        "engines": [{"name": "tlc", "path": "/verif/spec", "serves_properties": sorted(CHECKS),
                     "kind_free_text": "explicit TLA+ specification (spec/*.tla) checked by TLC 1.8; campaigns and behaviours enumerated by TLC drive the real solvers; recorded traces are validated by TLC against the specification"}],
        "checks": checks,
        "notes": "See DESIGN.md. KNOWN_FINDINGS.json lists genuine defects (open = reported as KNOWN-FINDING, fixed = repaired by a fix: commit in /repo).",
        "not_applicable": [{"property_id": p, "reason": r} for p, r in sorted(PENDING.items()) if p not in CHECKS]}
    with open(os.path.join(VERIF, "MANIFEST.json"), "w") as f:
        json.dump(man, f, indent=1)
    return man


if __name__ == "__main__":
    m = build()
    print("claimed:", [c["property_id"] for c in m["checks"]])
    print("not applicable:", [c["property_id"] for c in m["not_applicable"]])
