"""Registry of public solver classes: how to *observe* each one (constructor
arguments that have no default, a valid request: points of the right shape in
the documented domain, a valid time, cost class).  Discovered by introspection;
the table below only adds what introspection cannot know.  No expected values."""
import contextlib
import importlib
import inspect
import io
import os
import pkgutil

import numpy as np

os.environ.setdefault("MPLBACKEND", "Agg")

PREFIX = "exactpack.solvers."


def all_classes():
    import exactpack.solvers as S
    from exactpack.base import ExactSolver
    out = {}
    for m in pkgutil.walk_packages(S.__path__, S.__name__ + "."):
        if ".tests" in m.name or "examples" in m.name:
            continue
        try:
            with contextlib.redirect_stdout(io.StringIO()):
                mod = importlib.import_module(m.name)
        except Exception:
            continue
        for n, o in inspect.getmembers(mod, inspect.isclass):
            if issubclass(o, ExactSolver) and o is not ExactSolver and o.__module__ == mod.__name__:
                out[(o.__module__ + "." + n)[len(PREFIX):]] = o
    return out


def lin(a, b):
    def g(n):
        return [float(x) for x in (np.linspace(a, b, n) if n > 1 else [0.5 * (a + b)])]
    return g


def pairs(gx, gy):
    def g(n):
        return [(x, y) for x, y in zip(gx(n), gy(n))]
    return g


def triples(gx, gy, gz):
    def g(n):
        return [(x, y, z) for x, y, z in zip(gx(n), gy(n), gz(n))]
    return g


def _eos():
    from exactpack.solvers.nohblackboxeos.equations_of_state.eos_library import ideal_gas_eos
    return ideal_gas_eos()


class Spec:
    """how to build and call one class"""

    def __init__(self, name, cls):
        self.name, self.cls = name, cls
        self.kwargs = {}
        self.args = ()            # positional constructor args (black-box Noh: the EOS object)
        self.points = lin(0.1, 1.0)
        self.t = 0.5
        self.shape = "1d"         # 1d | N2 | N3 | 2N
        self.cost = "fast"        # fast | slow (seconds) | veryslow (minutes)
        self.min_n = 1
        self.sorted_only = False  # request must be an increasing grid (documented)
        self.after = None         # callable(solver) run after construction
        self.constructible = True
        self.note = ""
        self.alt = {}             # a second, valid, non-default parameter set (may be empty)
        self.edges = []           # documented edge / out-of-domain points that may be requested (value 0 or NaN there)

    def build(self, alt=False):
        args = self.args() if callable(self.args) else self.args
        kw = dict(self.kwargs)
        if alt:
            kw.update(self.alt)
        with contextlib.redirect_stdout(io.StringIO()):
            s = self.cls(*args, **kw)
            if self.after:
                self.after(s)
        return s

    def request(self, n):
        """n base points, in increasing order of the first coordinate, as a list
        (of floats or of tuples)"""
        return self.points(n)

    def as_array(self, pts):
        a = np.array(pts, dtype=float)
        if self.shape == "2N":
            return a.T.copy()
        return a


def describe(name, cls):
    s = Spec(name, cls)
    base = name.split(".")[-1]
    pk = name.split(".")[0]
    if pk == "cog":
        if "Cog11" in base:
            s.kwargs = {"Gamma": 40.0}
        if base == "PlanarCog12":
            s.constructible = False
            s.note = "geometry 1 is outside the documented range of Cog12 (2 or 3)"
        if "Cog7" in base or base == "Kidder76":
            s.points = lin(0.2, 1.5)
    elif pk == "blake":
        s.points = lin(0.1, 1.0); s.t = 1.0e-4; s.edges = [5.0]   # ahead of the wave front
    elif name == "dsd.cylexpansion.CylindricalExpansion":
        s.shape = "N2"; s.points = pairs(lin(0.8, 2.4), lin(0.7, 1.9)); s.t = 1.0
    elif pk == "dsd":
        s.kwargs = {"xnodes": 3, "ynodes": 3}; s.cost = "veryslow"; s.shape = "N2"
        s.points = pairs(lin(0.0, 1.0), lin(0.0, 1.0))
    elif pk == "ehep":
        s.points = lin(0.2, 5.0); s.t = 2.0
        s.edges = [0.0, 1.0, 10.0, 12.0]      # piston face, x-tilde, xmax, beyond xmax
    elif pk == "ep_piston":
        # documented: the request must reach beyond the elastic wave ("reduce time or increase xmax"): a single point is the far one
        s.points = (lambda n: [0.05] if n == 1 else lin(0.001, 0.05)(n)); s.t = 0.05
    elif pk == "guderley":
        # the similarity exponent takes 2 - 4 minutes per call for gamma = 1.4 or 5/3 and half a second for gamma = 2 or 3;
        # t = 0.7 is before, 1.3 t after the collapse (the shock reaches the centre at t = 0.75 and is reflected)
        s.kwargs = {"gamma": 3.0}; s.cost = "slow"; s.t = 0.7; s.points = lin(0.05, 1.5)
    elif name == "heat.cylindrical_sandwich.CylindricalSandwich":
        s.shape = "2N"; s.points = pairs(lin(0.3, 0.8), lin(0.2, 1.2)); s.t = 0.1; s.cost = "slow"
    elif name == "heat.hutchens1.Hutchens1":
        s.points = lin(0.1, 0.9); s.t = 0.1
    elif name == "heat.hutchens2.Hutchens2":
        s.shape = "2N"; s.points = pairs(lin(0.1, 0.9), lin(0.2, 1.8)); s.t = 0.1
    elif name == "heat.rectangle.Rectangle":
        s.shape = "2N"; s.points = pairs(lin(0.2, 1.8), lin(0.3, 1.7)); s.t = 0.1
    elif pk == "heat" and "planar_sandwich" in name:
        s.points = lin(0.1, 1.9); s.t = 0.1; s.cost = "slow"
    elif name == "heat.rod1d.Rod1D":
        s.points = lin(0.1, 1.9); s.t = 0.1
    elif pk == "kenamond":
        s.shape = "N2"
        s.points = pairs(lin(3.2, 7.0), lin(-4.0, 6.5)); s.t = 1.0
    elif pk == "mader":
        s.points = lin(0.05, 4.95); s.t = 6.25e-6; s.min_n = 2; s.sorted_only = True
        s.note = "cell averages on the request grid (documented): the request must be an increasing grid of >= 2 points"
    elif pk == "nohblackboxeos":
        s.args = lambda: (_eos(),)
        def after(sol):
            sol.set_new_solver_initial_guess([35, 0.5, 0.5])
            sol.solve_jump_conditions()
        s.after = after; s.t = 0.6
    elif pk == "radshocks":
        s.points = lin(-0.01, 0.01); s.t = 1.0e-9
        s.cost = "veryslow" if "Sn_" in base else "slow"
    elif pk == "riemann":
        s.points = lin(0.05, 0.95); s.t = 0.25
        if "GenEOS" in base:
            s.cost = "slow"; s.kwargs = {"num_x_pts": 1001, "num_int_pts": 1001}
    elif pk == "riemann2D_2section_steadystate":
        s.shape = "N2"; s.points = pairs(lin(0.6, 1.0), lin(-0.5, 0.6)); s.t = 0.25
    elif pk == "rmtv":
        s.points = lin(0.05, 0.85); s.t = 1.0
    elif pk == "sdrz":
        s.points = lin(0.1, 2.9); s.t = 2.0; s.min_n = 2
    elif pk == "suolson":
        s.points = lin(0.1, 5.0); s.t = 1.0e-9; s.edges = [0.0, 40.0]
    elif pk == "sedov":
        s.edges = [2.0]                        # ahead of the shock
        # the docstring says density / energy at small radius are interpolated and "should not be
        # trusted": requests stay outside that documented region
        s.points = lin(0.55, 1.2); s.t = 1.0; s.cost = "slow"
    elif pk == "suolson":
        s.points = lin(0.1, 5.0); s.t = 1.0e-9
    # a second parameter set: explicit table first, then generic choices by parameter name
    if name in STATEFUL and STATEFUL[name][2]:
        s.alt = dict(STATEFUL[name][2])
    elif name in ALT:
        s.alt = dict(ALT[name])
    else:
        P = cls.parameters
        if pk in ("cog", "noh", "noh2") and "rho0" in P:
            s.alt["rho0"] = 2.5
        if pk in ("noh",) and "gamma" in P:
            s.alt["gamma"] = 1.4
        if pk == "noh2" and "gamma" in P:
            s.alt["gamma"] = 1.4
        if pk == "cog" and "Gamma" in P:
            s.alt["Gamma"] = 1.5
    return s


ALT = {
    "kenamond.kenamond1.Kenamond1": {"x_d": (1.0, 1.0), "t_d": 0.5, "D": 2.0},
    "kenamond.kenamond3.Kenamond3": {"x_d": (1.0, 6.0), "R": 2.5},
    "dsd.cylexpansion.CylindricalExpansion": {"r_1": 0.8, "alpha_2": 0.05, "t_d": 0.3},
    "ehep.ehep.EscapeOfHEProducts": {"D": 1.0, "up": 0.1, "xtilde": 0.8},
    "ep_piston.ep_piston.EPpiston": {"up": 0.02, "model": "hypo"},
    "heat.rod1d.Rod1D": {"TL": 1.0, "TR": 4.0, "kappa": 0.5, "gamma1": 2.0, "gamma2": 1.0},
    "heat.hutchens1.Hutchens1": {"Tb": 3.0, "b": 1.5},
    "heat.hutchens2.Hutchens2": {"TL": 3.0},
    "heat.rectangle.Rectangle": {"Ttop": 2.0, "kappa": 0.5},
    "heat.planar_sandwich.PlanarSandwich": {"TB": 2.0, "TT": 1.0},
    "sedov.SphericalSedov": {"gamma": 5.0 / 3.0},          # the geometry wrappers publish gamma only
    "sedov.CylindricalSedov": {"gamma": 5.0 / 3.0},
    "sedov.PlanarSedov": {"gamma": 5.0 / 3.0},
}


_CACHE = None


def registry():
    global _CACHE
    if _CACHE is None:
        _CACHE = {n: describe(n, c) for n, c in sorted(all_classes().items())}
        # a second way of using the general-EOS Riemann solver: a JWL explosive (Shyue's problem; second set: another JWL constant)
        base = _CACHE["riemann.ep_riemann.GenEOS_Solver"]
        j = Spec("riemann.ep_riemann.GenEOS_Solver@JWL", base.cls)
        j.kwargs = dict(xmin=0.0, xd0=50.0, xmax=100.0, rl=1.7, ul=0.0, pl=10.0, gl=1.25, rr=1.0, ur=0.0, pr=0.5, gr=1.25,
                        A=8.545, B=0.205, R1=4.6, R2=1.35, r0=1.84, e0=0.0, problem="JWL", num_x_pts=1001, num_int_pts=1001)
        j.alt = {"A": 6.0}
        j.points = lin(12.0, 88.0); j.t = 12.0; j.cost = "slow"
        _CACHE[j.name] = j
        b2 = _CACHE["sedov.sedov.Sedov"]
        v = Spec("sedov.sedov.Sedov@vacuum", b2.cls)
        v.kwargs = {"geometry": 3, "omega": 2.4, "gamma": 1.4}
        v.alt = {"geometry": 2, "omega": 1.7}
        # points between the vacuum boundaries at t and 1.3 t (0.070 / 0.088 and 0.133 / 0.163), inside, and at the shock
        v.points = lambda n: [0.05, 0.08, 0.14, 0.22, 0.3, 0.45, 0.58][:n] if n >= 6 else [0.08, 0.14, 0.3, 0.45][:n]
        v.t = 1.0; v.cost = "slow"
        _CACHE[v.name] = v
    return _CACHE


# ---------------------------------------------------------------------------
# C06: classes taking part in history / interleaving exploration, the kind of
# state they keep (see spec/Interp.tla), the module whose globals they write,
# and a second, valid, non-default parameter set.
def _ic(density):
    return {"density": density, "velocity": -1, "pressure": 0, "symmetry": 2}


STATEFUL = {
    # name: (kind, module, alt kwargs, cost)
    "noh.noh1.Noh": ("pure", "noh1", {"gamma": 1.4, "u0": -2.0, "geometry": 2}),
    "cog.cog8.Cog8": ("pure", "cog8", {"geometry": 2, "rho0": 2.5}),
    "kenamond.kenamond2.Kenamond2": ("pure", "kenamond2", {"R": 2.5, "D1": 2.5}),
    "blake.blake.Blake": ("pure", "blake", {"pressure_scale": 2.0e6, "cavity_radius": 0.08, "lame_mod": 30.0e9, "shear_mod": 20.0e9}),
    "ep_piston.ep_piston.EPpiston": ("pure", "ep_piston", {"up": 0.02, "model": "hypo"}),
    "heat.rod1d.Rod1D": ("pure", "rod1d", {"TL": 1.0, "TR": 4.0, "kappa": 0.5}),
    "heat.planar_sandwich_half.PlanarSandwichHalf": ("pure", "rod1d", {"TB": 2.0, "FT": 0.5}),
    "heat.hutchens1.Hutchens1": ("pure", "hutchens1", {"Tb": 3.0, "b": 1.5}),
    "rmtv.rmtv.Rmtv": ("glob", "rmtv.timmes", {"rf": 0.7}),
    "suolson.suolson.SuOlson": ("glob", "suolson.timmes", {"opac": 2.0, "trad_bc_ev": 500.0}),
    "riemann.ep_riemann.IGEOS_Solver": ("attr", "riemann", {"ul": 0.5, "gr": 5.0 / 3.0, "pr": 0.2}),
    "riemann2D_2section_steadystate.ep_riemann2D_2section_steadystate.IGEOS_Solver":
        ("attr", "riemann2D", {"top_state": [0.25, 0.5, 6.0, 0.0, 1.4]}),
    "sedov.sedov.Sedov": ("attr", "sedov", {"geometry": 2, "omega": 0.5, "gamma": 5.0 / 3.0}),
    "sedov.sedov.Sedov@vacuum": ("attr", "sedov", {"geometry": 2, "omega": 1.7, "gamma": 1.4}),      # vacuum-type solutions
    "mader.timmes.Mader": ("attr", "mader", {"u_piston": 1.0e4}),
    "sdrz.sdrz.SteadyDetonationReactionZone": ("attr", "sdrz", {"D": 1.0, "rho_0": 2.0}),
    "radshocks.nED_radshocks.nED_Solver": ("eager", "radshocks", {"M0": 1.4}),
    "radshocks.nED_radshocks.ie_Solver": ("eager", "radshocks", {}),
    "nohblackboxeos.blackboxnoh.NohBlackBoxEos": ("bbox", "bbox", {}),
    "nohblackboxeos.blackboxnoh.PlanarNohBlackBox": ("bbox", "bbox", {}),
    "nohblackboxeos.blackboxnoh.SphericalNohBlackBox": ("bbox", "bbox", {}),
    "riemann.ep_riemann.GenEOS_Solver": ("attr", "riemann", {"ul": 0.5, "gr": 5.0 / 3.0, "pr": 0.2, "num_x_pts": 1001, "num_int_pts": 1001}),
    "radshocks.nED_radshocks.ED_Solver": ("eager", "radshocks", {"M0": 1.4}),
    "riemann.ep_riemann.GenEOS_Solver@JWL": ("attr", "riemann", {"A": 6.0}),
    "guderley.guderley.Guderley": ("glob", "guderley.ramsey", {"gamma": 2.0, "rho0": 2.5, "geometry": 2}),
}
# request-grid dependence that the documentation states (values may move within the
# documented resolution when the *batch* changes; never when only history changes)
GRID_DEPENDENT = {"sedov.sedov.Sedov", "sedov.sedov.Sedov@vacuum", "riemann.ep_riemann.GenEOS_Solver@JWL", "mader.timmes.Mader", "sdrz.sdrz.SteadyDetonationReactionZone",
                  "riemann.ep_riemann.GenEOS_Solver",
                  "riemann2D_2section_steadystate.ep_riemann2D_2section_steadystate.IGEOS_Solver"}
BBOX_TOL = {1: 1.0e-10, 2: 1.0e-3}
# public helper methods that only compute (op "Query" of spec/Interp.tla): class -> {query id: (method, args)}
QUERIES = {
    "ep_piston.ep_piston.EPpiston": {1: ("Plastic_Residual", (0.45,)), 2: ("Gruneisen", (2.79, 2.0, 0.533, 1.34, 3.1, 0.02))},
    "sedov.sedov.Sedov": {1: ("sedov_funcs_standard", (0.3,)), 2: ("sed_lam_min", (0.3,))},
    "sedov.sedov.Sedov@vacuum": {1: ("sedov_funcs_standard", (0.3,)), 2: ("sed_lam_min", (0.3,))},
    "blake.blake.Blake": {},
    "sdrz.sdrz.SteadyDetonationReactionZone": {1: ("run_tvec", ([0.0, 0.4, 1.3],)), 2: ("run_tvec", ([0.0, 2.0],))},
}
