----------------------------- MODULE InterpMC -----------------------------
(* Model-checking instance of Interp: abstract classes, one per kind.      *)
EXTENDS Interp, Json
MCClasses == {"P", "G1", "G2", "A", "B1", "B2"}
MCKind    == [c \in MCClasses |-> CASE c = "P" -> "pure" [] c \in {"G1", "G2"} -> "glob" [] c = "A" -> "attr" [] OTHER -> "bbox"]
MCModule  == [c \in MCClasses |-> IF c \in {"G1", "G2"} THEN "gmod" ELSE c]   \* two classes sharing one module's globals
Emit == IF Len(hist) = MaxOps THEN PrintT(ToJson([behaviour |-> hist])) ELSE TRUE
===========================================================================
