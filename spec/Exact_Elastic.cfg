SPECIFICATION Spec
INVARIANT AlgebraOK
INVARIANT Emit
