--------------------------- MODULE Numbers ---------------------------
(* Number encodings shared by every ExactPack specification module.     *)
(*                                                                      *)
(*  Q   exact rationals  <<n, d>>, d > 0 (not necessarily reduced)      *)
(*  SL  sign/log numbers [s |-> -1|0|1, l |-> Int], l = round(1e6 ln|x|)*)
(*      (micro-nepers): products, quotients and rational powers of      *)
(*      measured reals become integer sums that TLC evaluates itself.   *)
(*  PPM integer vectors: the individual terms of an additive balance,   *)
(*      each divided by one common scale, in parts per million.         *)
(* TLC integers are 32-bit and overflow is an error, never wrap-around; *)
(* the encoder keeps |l| < 10^8 and |ppm| <= 10^8.                      *)
EXTENDS Integers, Sequences, FiniteSets

Abs(x)    == IF x < 0 THEN -x ELSE x
Max(a, b) == IF a < b THEN b ELSE a
Min(a, b) == IF a < b THEN a ELSE b
Sgn(x)    == IF x < 0 THEN -1 ELSE IF x = 0 THEN 0 ELSE 1

RECURSIVE SumFrom(_, _)
SumFrom(s, i) == IF i > Len(s) THEN 0 ELSE s[i] + SumFrom(s, i + 1)
Sum(s)        == SumFrom(s, 1)

RECURSIVE MaxAbsFrom(_, _)
MaxAbsFrom(s, i) == IF i > Len(s) THEN 0 ELSE Max(Abs(s[i]), MaxAbsFrom(s, i + 1))
MaxAbs(s)        == MaxAbsFrom(s, 1)

(* ------------------------------ Q --------------------------------- *)
RECURSIVE Gcd(_, _)
Gcd(a, b) == IF b = 0 THEN Abs(a) ELSE Gcd(b, a % b)
QNorm(q)  == LET g == Gcd(q[1], q[2])
                 n == IF g = 0 THEN 0 ELSE q[1] \div g
                 d == IF g = 0 THEN 1 ELSE q[2] \div g
             IN  IF d < 0 THEN <<-n, -d>> ELSE <<n, d>>
Q(n)        == <<n, 1>>
QAdd(a, b)  == QNorm(<<a[1] * b[2] + b[1] * a[2], a[2] * b[2]>>)
QNeg(a)     == <<-a[1], a[2]>>
QSub(a, b)  == QAdd(a, QNeg(b))
QMul(a, b)  == QNorm(<<a[1] * b[1], a[2] * b[2]>>)
QInv(a)     == IF a[1] < 0 THEN <<-a[2], -a[1]>> ELSE <<a[2], a[1]>>
QDiv(a, b)  == QMul(a, QInv(b))
QEq(a, b)   == a[1] * b[2] = b[1] * a[2]
QLt(a, b)   == a[1] * b[2] < b[1] * a[2]
QLe(a, b)   == a[1] * b[2] <= b[1] * a[2]
QSgn(a)     == Sgn(a[1])
QAbs(a)     == <<Abs(a[1]), a[2]>>
RECURSIVE QPowN(_, _)
QPowN(a, n) == IF n = 0 THEN <<1, 1>>
               ELSE IF n < 0 THEN QPowN(QInv(a), -n)
               ELSE QMul(a, QPowN(a, n - 1))
QSum2(a, b, c)    == QAdd(a, QAdd(b, c))

(* ------------------------------ SL -------------------------------- *)
SLZero      == [s |-> 0, l |-> 0]
SLOne       == [s |-> 1, l |-> 0]
IsSL(a)     == a.s \in {-1, 0, 1}
Mul(a, b)   == LET s == a.s * b.s IN [s |-> s, l |-> IF s = 0 THEN 0 ELSE a.l + b.l]
Inv(a)      == [s |-> a.s, l |-> -a.l]                 \* a # 0
Div(a, b)   == Mul(a, Inv(b))                          \* b # 0
Neg(a)      == [s |-> -a.s, l |-> a.l]
AbsSL(a)    == [s |-> Abs(a.s), l |-> a.l]
Sq(a)       == Mul(a, a)
(* a^(n/d) for a >= 0 (or any a when d = 1 and n is even/odd handled by sign) *)
PowQ(a, q)  == [s |-> IF a.s = 0 THEN 0 ELSE IF a.s = 1 THEN 1 ELSE (IF q[1] % 2 = 0 THEN 1 ELSE -1),
                l |-> IF a.s = 0 THEN 0 ELSE (q[1] * a.l) \div q[2]]
(* equality within tol micro-nepers; zero matches only zero *)
Same(a, b, tol) == a.s = b.s /\ (a.s = 0 \/ Abs(a.l - b.l) <= tol)
(* a <= b up to slack micro-nepers *)
SLLe(a, b, slack) ==
    CASE a.s < b.s -> TRUE
      [] a.s > b.s -> FALSE
      [] a.s = 0   -> TRUE
      [] a.s = 1   -> a.l <= b.l + slack
      [] OTHER     -> b.l <= a.l + slack
SLLt(a, b) ==
    CASE a.s < b.s -> TRUE
      [] a.s > b.s -> FALSE
      [] a.s = 0   -> FALSE
      [] a.s = 1   -> a.l < b.l
      [] OTHER     -> b.l < a.l
(* product of a sequence of <<SL, Q-exponent>> pairs *)
RECURSIVE ProdPowFrom(_, _)
ProdPowFrom(s, i) == IF i > Len(s) THEN SLOne
                     ELSE Mul(PowQ(s[i][1], s[i][2]), ProdPowFrom(s, i + 1))
ProdPow(s) == ProdPowFrom(s, 1)

(* ----------------------------- PPM -------------------------------- *)
Balanced(terms, tol) == Abs(Sum(terms)) <= tol
=======================================================================
