-------------------------- MODULE InterpDefectsTpl --------------------------
(* The templates of InterpPlans stepped through the defect model: for every   *)
(* modelled defect some template must violate Pure (and none with "none").    *)
EXTENDS InterpDefects

(* ---- the templates of InterpPlans stepped through this model ---- *)
VARIABLES plan, pos
pvars == <<objs, ccache, cglob, read, last, nops, plan, pos>>
Apply(e) ==
  CASE e.op = "Construct" -> Construct(e.obj, e.cls, e.cfg)
    [] e.op = "Call"      -> Call(e.obj, e.variant, e.t)
    [] OTHER              -> UNCHANGED <<objs, ccache, cglob, read, last>>      \* Solve / SetTol / Query: no part in this model
CONSTANT PlanSet          \* "templates" (what C06 replays) | "scan" (what a law check with a bystander does)
PInit == Init /\ plan \in (IF PlanSet = "templates" THEN Plans \cup QueryPlans ELSE ScanPlans) /\ pos = 1
PNext == pos <= Len(plan) /\ Apply(plan[pos]) /\ pos' = pos + 1 /\ UNCHANGED <<plan, nops>>
PSpec == PInit /\ [][PNext]_pvars
=============================================================================
