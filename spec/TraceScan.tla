--------------------------- MODULE TraceScan ---------------------------
(* Log validation of recorded scans against Profile.  The trace file  *)
(* (JSON array, path in env TRACE_FILE) holds many scans back to back:  *)
(*   Cfg  (start of scan: family, parameters as SL numbers, law groups) *)
(*   Pt   (a point: region, finite flag, field values, balance terms)   *)
(*   Jump (a located discontinuity between two Pt events)               *)
(*   End                                                                *)
(* One TLC state per consumed event; POSTCONDITION Accepted checks that *)
(* the whole file was consumed.  Verdicts are total: a failed law does  *)
(* not disable the step, it is printed as JSON with the scan id, event  *)
(* index and clause names, and counted.                                 *)
EXTENDS Profile, Json, IOUtils, TLC

Log == JsonDeserialize(IOEnv.TRACE_FILE)

VARIABLES l,      \* next event to consume
          cur,    \* Cfg event of the scan in progress (or NoPt)
          reg,    \* region of the walk ("" before the first point)
          pend,   \* pending Jump event (or NoPt): the next Pt must land in an allowed region
          prev    \* previous point of the walk (or NoPt)
vars == <<l, cur, reg, pend, prev>>

Report(e, cs) == IF cs = {} THEN TRUE
                 ELSE PrintT(ToJson([tid |-> e.tid, i |-> l, failed |-> cs]))

Ev == Log[l]
IsEvent(k) == l <= Len(Log) /\ Ev.k = k

Init == l = 1 /\ cur = NoPt /\ reg = "" /\ pend = NoPt /\ prev = NoPt

Start ==
  /\ IsEvent("Cfg") /\ cur = NoPt
  /\ Report(Ev, Chk("CFG.catalogue", CfgOK(Ev)))
  /\ cur' = Ev /\ reg' = "" /\ pend' = NoPt /\ prev' = NoPt /\ l' = l + 1

(* a point: first of the scan, same region, continuous boundary, or landing after a jump *)
Point ==
  /\ IsEvent("Pt") /\ cur # NoPt
  /\ LET e == Ev
         structural ==
              Chk("GRAM.region", RegionOK(cur, e.reg))
         \cup (IF pend # NoPt
               THEN Chk("GRAM.jump", GrammarOK(cur, reg, pend.kind, e.reg))
               ELSE IF reg # "" /\ e.reg # reg
               THEN Chk("GRAM.cont", GrammarOK(cur, reg, "cont", e.reg))
               ELSE {})
     IN Report(e, structural \cup PtClauses(cur, e) \cup StepClauses(cur, prev, e))
  /\ reg' = Ev.reg /\ pend' = NoPt /\ prev' = Ev /\ l' = l + 1 /\ UNCHANGED cur

Jump ==
  /\ IsEvent("Jump") /\ cur # NoPt /\ pend = NoPt /\ reg # ""
  /\ Report(Ev, JumpClauses(cur, Ev))
  /\ pend' = Ev /\ l' = l + 1 /\ UNCHANGED <<cur, reg, prev>>

(* integral budget / bounds events: attached to the scan, do not move the walk *)
Integral ==
  /\ IsEvent("Int") /\ cur # NoPt
  /\ Report(Ev, IntClauses(cur, Ev))
  /\ l' = l + 1 /\ UNCHANGED <<cur, reg, pend, prev>>
(* the scan continues on another grid: the walk (previous point) starts again *)
Break ==
  /\ IsEvent("Brk") /\ cur # NoPt
  /\ prev' = NoPt /\ reg' = "" /\ pend' = NoPt /\ l' = l + 1 /\ UNCHANGED cur
Bounds ==
  /\ IsEvent("Bnd") /\ cur # NoPt
  /\ Report(Ev, BndClauses(cur, Ev))
  /\ l' = l + 1 /\ UNCHANGED <<cur, reg, pend, prev>>

Finish ==
  /\ IsEvent("End") /\ cur # NoPt
  /\ Report(Ev, Chk("GRAM.dangling-jump", pend = NoPt) \cup Chk("GRAM.incomplete", FinalOK(cur, reg)))
  /\ cur' = NoPt /\ reg' = "" /\ pend' = NoPt /\ prev' = NoPt /\ l' = l + 1

Next == Start \/ Point \/ Jump \/ Integral \/ Bounds \/ Break \/ Finish
Spec == Init /\ [][Next]_vars

(* the whole trace was consumed: one state per event plus the initial state *)
Accepted == TLCGet("stats").diameter - 1 = Len(Log)
=======================================================================
