---------------------------- MODULE EosCampaign ----------------------------
(* Quantifier domain of property C16: every EOS class of the library with    *)
(* admissible constants, thermodynamic states in its domain of validity, the *)
(* four residual formulations, geometries and initial states.                *)
EXTENDS Numbers, TLC, Json
CONSTANT Tier
Pick(q, th) == IF Tier = "quick" THEN q ELSE q \cup th

Gammas == Pick({<<5, 3>>, <<7, 5>>}, {<<3, 1>>})
EosSet ==
     {[cls |-> "ideal_gas_eos", k |-> [gamma |-> g]] : g \in Gammas}
\cup {[cls |-> "stiffened_gas_eos", k |-> [gamma |-> g, c_s |-> c, rho_inf |-> r]] :
        g \in Gammas, c \in Pick({<<13, 10>>, <<1, 2>>}, {}), r \in Pick({<<1, 1>>, <<1, 2>>}, {})}
\cup {[cls |-> "noble_abel_eos", k |-> [gamma |-> g, b |-> b]] : g \in Gammas, b \in Pick({<<1, 100>>, <<1, 20>>}, {<<1, 10>>})}
\cup {[cls |-> "carnahan_starling_eos", k |-> [gamma |-> g, b |-> b]] : g \in Gammas, b \in Pick({<<1, 100>>, <<1, 20>>}, {<<1, 10>>})}
\cup {[cls |-> "aluminum_eos", k |-> [x \in {} |-> 0]]}

(* states: density (for the solid: relative to its reference density, both sides of it), specific energy *)
Dens == Pick({<<1, 2>>, <<1, 1>>, <<3, 1>>, <<8, 1>>}, {<<1, 10>>, <<5, 2>>})
Ener == Pick({<<1, 10>>, <<1, 2>>, <<4, 1>>}, {<<1, 100>>})
(* the excluded-volume gases need b rho < 1 *)
InDomain(eos, rho) == IF eos.cls \in {"noble_abel_eos", "carnahan_starling_eos"} THEN QLt(QMul(eos.k.b, rho), <<9, 10>>) ELSE TRUE

Retunable == {"stiffened_gas_eos", "noble_abel_eos", "carnahan_starling_eos"}
Residuals == {"energy_noh_residual", "simplified_energy_noh_residual", "pressure_noh_residual", "simplified_pressure_noh_residual"}
Symmetry  == {0, 1, 2}
InitRho   == Pick({<<1, 1>>, <<2, 1>>}, {})
InitU     == Pick({<<-1, 1>>, <<-3, 2>>}, {})
InitP     == {<<0, 1>>, <<1, 5>>}          \* a pre-shock pressure is admitted in planar symmetry only (documented)

VARIABLE pb
Init == \/ \E eos \in EosSet, r \in Dens, e \in Ener :
              InDomain(eos, r) /\ pb = [kind |-> "state", eos |-> eos, rho |-> r, e |-> e]
        \/ \E eos \in EosSet, f \in Residuals, s \in Symmetry, r0 \in InitRho, u0 \in InitU, p0 \in InitP, r \in Dens, e \in Ener :
              /\ InDomain(eos, r) /\ InDomain(eos, r0)
              /\ r = <<3, 1>> /\ e = <<1, 2>>                                   \* one Jacobian evaluation point per formulation ...
              /\ (f \in {"simplified_energy_noh_residual", "simplified_pressure_noh_residual"} => s = 0)   \* documented: "this residual assumes symmetry = 0"
              /\ (p0[1] # 0 => s = 0 /\ f \in {"energy_noh_residual", "pressure_noh_residual"})    \* the simplified residuals assume P0 = 0 (documented ValueError)
              /\ pb = [kind |-> "jacobian", eos |-> eos, fn |-> f, symmetry |-> s, rho0 |-> r0, u0 |-> u0, p0 |-> p0, rho |-> r, e |-> e]
        \/ \E eos \in EosSet, s \in Symmetry, r0 \in InitRho, u0 \in InitU :
              /\ InDomain(eos, QMul(r0, <<16, 1>>))
              \* with a non-ideal EOS the cold converging inflow is not pressure-free (e(rho, 0) depends on rho): the jump
              \* conditions are an unambiguous statement in planar symmetry only
              /\ (eos.cls # "ideal_gas_eos" => s = 0)
              \* via: the EOS reaches its constants at construction ("fresh") or through its public setters after the solver
              \* has already been used once with other constants ("retuned"; classes that publish setters)
              /\ \E via \in {"fresh", "retuned"}, p0 \in InitP :
                   /\ (via = "retuned" => eos.cls \in Retunable)
                   /\ (p0[1] # 0 => s = 0 /\ eos.cls # "aluminum_eos")      \* a pre-shock pressure is admitted in planar symmetry only (documented)
                   /\ pb = [kind |-> "newton", eos |-> eos, symmetry |-> s, rho0 |-> r0, u0 |-> u0, p0 |-> p0, via |-> via]
Next == UNCHANGED pb
Spec == Init /\ [][Next]_pb
Emit == PrintT(ToJson(pb))
=============================================================================
