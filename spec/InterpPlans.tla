---------------------------- MODULE InterpPlans ----------------------------
(* The systematic behaviours (templates) replayed by C06, as plain data over *)
(* the constants of Interp: shared by InterpTemplates (the templates are      *)
(* behaviours of Interp) and by InterpDefects (the templates expose every     *)
(* modelled way of leaking state).                                            *)
EXTENDS Integers, Sequences
CONSTANTS Classes, Kind, Module, Cfgs

C(o, c, k)   == [op |-> "Construct", obj |-> o, cls |-> c, cfg |-> k, dict |-> o]
K(o, v, t)   == [op |-> "Call", obj |-> o, variant |-> v, t |-> t]
S(o)         == [op |-> "Solve", obj |-> o]
T(o, x)      == [op |-> "SetTol", obj |-> o, tol |-> x]
Qy(o, q)     == [op |-> "Query", obj |-> o, q |-> q]

Plans ==
     {<<C(1, c, k), K(1, "full", 1), K(1, "full", 2), K(1, "perm", 1), K(1, "full", 1), K(1, "inner", 1)>> : c \in Classes, k \in Cfgs}
\cup {<<C(1, c, 1), C(2, c, 2), K(1, "full", 1), K(2, "full", 1), K(1, "full", 1), K(2, "subset", 2), K(1, "dup", 2)>> : c \in Classes}
\cup {<<C(1, c, 2), K(1, "full", 1), C(2, c, 1), K(2, "full", 1), K(1, "full", 1)>> : c \in Classes}
\cup UNION {{<<C(1, c, 1), C(2, d, 1), K(1, "full", 1), K(2, "full", 1), K(1, "full", 1)>> :
                  d \in {x \in Classes : x # c /\ Module[x] = Module[c]}} : c \in Classes}
\cup {<<C(1, c, 1), T(1, 2), S(1), C(2, c, 2), T(2, 1), S(2), K(1, "full", 1), K(2, "full", 1), S(1), K(1, "full", 2)>> :
         c \in {x \in Classes : Kind[x] = "bbox"}}

(* what every scan driver of the law checks (C01 - C04, C07 - C19) does since harness/bystander.py: the solver under test, *)
(* a bystander of the same class with other parameters constructed after it and called with the same request before it   *)
(* and itself called once at another time before the call that is measured                                                 *)
ScanPlans == {<<C(1, c, 1), C(2, c, 2), K(2, "full", 1), K(1, "full", 2), K(1, "full", 1)>> : c \in Classes}

QueryPlans == {<<C(1, c, k), Qy(1, 1), K(1, "full", 1), Qy(1, 2), K(1, "full", 1)>> : c \in Classes, k \in Cfgs}

=============================================================================
