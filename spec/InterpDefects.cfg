SPECIFICATION Spec
CONSTANTS
  Classes = {"X", "Y"}
  Cfgs = {1, 2}
  Objs = {1, 2}
  Variants = {"full", "perm", "subset", "dup", "inner"}
  MaxOps = 4
  Defect = "none"
INVARIANT Pure
CHECK_DEADLOCK FALSE
