--------------------------- MODULE SessionGen ---------------------------
(* Behaviour generation for the API contract: TLC enumerates every       *)
(* behaviour of Session for ONE abstract class and one object up to       *)
(* MaxOps operations and prints each maximal one (as a JSON operation     *)
(* list); the harness instantiates every behaviour for every public       *)
(* solver class found by introspection and replays it in a real           *)
(* interpreter.                                                           *)
EXTENDS Session, Json

(* print behaviours that end with a Dump, or a failed Construct, i.e. complete shapes *)
Complete == /\ Len(hist) > 0
            /\ \/ hist[Len(hist)].op = "Dump"
               \/ (hist[Len(hist)].op = "Construct" /\ ~IsOk(hist[Len(hist)].mode))
(* shapes: no repeated failed constructs; at most one Call before the Dump; keeps the space linear *)
Shape == /\ Cardinality({i \in 1..Len(hist) : hist[i].op = "Call"}) <= 1
         /\ Cardinality({i \in 1..Len(hist) : hist[i].op = "Construct"}) <= 1
         /\ Cardinality({i \in 1..Len(hist) : hist[i].op = "Dump"}) <= 1
Emit == IF Complete THEN PrintT(ToJson([behaviour |-> hist])) ELSE TRUE
=========================================================================
