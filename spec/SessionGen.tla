--------------------------- MODULE SessionGen ---------------------------
(* Behaviour generation for the API contract: TLC enumerates every       *)
(* behaviour of Session for ONE abstract class and one object up to       *)
(* MaxOps operations and prints each maximal one (as a JSON operation     *)
(* list); the harness instantiates every behaviour for every public       *)
(* solver class found by introspection and replays it in a real           *)
(* interpreter.                                                           *)
EXTENDS Session, Json

(* print behaviours that end with a Dump, or a failed Construct, i.e. complete shapes *)
CallsAt == {i \in 1..Len(hist) : hist[i].op = "Call"}
Complete == /\ Len(hist) > 0
            /\ \/ hist[Len(hist)].op = "Dump"
               \/ (hist[Len(hist)].op = "Construct" /\ ~IsOk(hist[Len(hist)].mode))
               \/ (hist[Len(hist)].op = "Call" /\ Cardinality(CallsAt) = 2)
(* shapes: no repeated failed constructs; one Call before the Dump, or two Calls of the same object with the same     *)
(* container and the same number of points (>= 3) in two different orders ("in the order given" must hold for the    *)
(* second request as well); keeps the space linear                                                                   *)
TwoCallsOK == \A i, j \in CallsAt : i < j => /\ hist[i].container = hist[j].container /\ hist[i].n = hist[j].n /\ hist[i].n >= 3
                                              /\ hist[i].order # hist[j].order /\ hist[1].mode = "ok"
Shape == /\ Cardinality(CallsAt) <= 2 /\ TwoCallsOK
         /\ (Cardinality(CallsAt) = 2 => Cardinality({i \in 1..Len(hist) : hist[i].op = "Dump"}) = 0)
         /\ Cardinality({i \in 1..Len(hist) : hist[i].op = "Construct"}) <= 1
         /\ Cardinality({i \in 1..Len(hist) : hist[i].op = "Dump"}) <= 1
Emit == IF Complete THEN PrintT(ToJson([behaviour |-> hist])) ELSE TRUE
=========================================================================
