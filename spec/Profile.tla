---------------------------- MODULE Profile ----------------------------
(* The scan machine.  A scan walks along increasing position at one     *)
(* time through the fields returned by a solver.  State: the catalogue  *)
(* family and parameters of the scan (cur), the region the walk is in   *)
(* (reg), the previous point (prev).  Actions: Start, Stay (next point  *)
(* in the same region), Enter (continuous region boundary), Cross (a    *)
(* located discontinuity), Finish.  Each action returns the set of      *)
(* failed clauses instead of being disabled by a failed law.            *)
EXTENDS Laws, Catalogue

NoPt == [none |-> TRUE]

RowOf(c)  == Cat[c.fam]
TolOf(c)  == Tol[RowOf(c).res]

(* structural well-formedness of a Cfg event against the catalogue *)
CfgOK(c) == /\ c.fam \in Families
            /\ \A g \in {c.groups[i] : i \in 1..Len(c.groups)} : g \in {"EOS", "PDE", "ADM", "RH", "FIN", "INT", "BURN", "ELAS", "HEAT", "SUOL", "RAD", "R2D", "RZ"}

Groups(c) == {c.groups[i] : i \in 1..Len(c.groups)}

(* two-gamma problems: the gamma of the side of the contact the point lies on *)
ParSide(c, reg) == IF SideOf(reg) = "l" THEN [gm1 |-> c.par.gm1l, gamma |-> c.par.gammal]
                                        ELSE [gm1 |-> c.par.gm1r, gamma |-> c.par.gammar]
EosClauses(c, e) ==
  LET row == RowOf(c) t == TolOf(c).sl IN
  CASE e.reg = "vacuum" \/ (row.eos = "suolson" /\ ~Has(e.v, "u")) \/ (row.eos = "radshock" /\ ~Has(e, "wave") /\ ~Has(e.v, "p")) -> {}            \* documented vacuum: rho = p = 0, the specific energy is undefined
    [] row.eos = "radshock" ->               \* the profile travels with M0 x the upstream sound speed of the USER's gamma, Cv, Tref
            IF Has(e, "wave")
            THEN Chk("RAD.wave-speed", Same(e.v.speed, Mul(c.par.M0, PowQ(Mul(Mul(c.par.gamma, c.par.gm1), Mul(c.par.Cv, c.par.Tref)), <<1, 2>>)), 100))
            ELSE \* the material: an ideal gas with constant specific heat
                 EosGamma(c.par, e.v, t) \cup Chk("EOS.e=Cv.T", Same(e.v.e, Mul(c.par.Cv, e.v.T), t))
    [] row.eos = "suolson" ->                \* the dimensionless variables follow from the user's opacity, alpha and boundary temperature
            Chk("SUOL.conversion.epsilon", Same(c.par.eps, Div(SL_4a, c.par.alpha), 5))
       \cup Chk("SUOL.conversion.x", Same(c.par.dxdz, Mul(SL_rt3, c.par.opac), 5))
       \cup Chk("SUOL.conversion.tau", Same(c.par.dtaudt, Div(Mul(SL_4ac, c.par.opac), c.par.alpha), 5))
       \cup Chk("SUOL.conversion.u", Same(e.v.u, PowQ(Div(e.v.Tr, c.par.Tbc), <<4, 1>>), 20))
       \cup Chk("SUOL.conversion.v", Same(e.v.vv, PowQ(Div(e.v.Tm, c.par.Tbc), <<4, 1>>), 20))
    [] row.eos = "cjisentrope" ->            \* products of a CJ detonation: c^2 = gamma p / rho on the isentrope p/p_cj = (rho/rho_cj)^gamma
            Chk("EOS.c2=g.p/rho", Same(Sq(e.v.c), Div(Mul(c.par.gamma, e.v.p), e.v.rho), 2 * t))
       \cup Chk("EOS.cj-isentrope", Same(Div(e.v.p, c.par.pcj), PowQ(Div(e.v.rho, c.par.rhocj), c.par.gammaQ), 4 * t))
    [] row.eos = "rmtv"     ->               \* p = (gamma-1) rho e and (gamma-1) e = Gamma T ; nothing to say in the cold gas (e = T = 0)
            IF e.reg = "cold" THEN {}
            ELSE EosGamma(c.par, e.v, t) \cup Chk("EOS.(g-1)e=Gamma.T", Same(Mul(c.par.gm1, e.v.e), Mul(c.par.bigamma, e.v.T), t))
    [] row.eos = "sound"    ->               \* reaction zone: p, rho and c are returned (no energy): c^2 = gamma p / rho
            Chk("EOS.c2=g.p/rho", e.v.p.s = 0 \/ Same(Sq(e.v.c), Div(Mul(c.par.gamma, e.v.p), e.v.rho), 2 * t))
    [] row.eos = "gamma"    -> EosGamma(c.par, e.v, t)
    [] row.eos = "gamma2"   -> EosGamma(ParSide(c, e.reg), e.v, t)
    [] row.eos = "cog"      -> EosCog(c.par, e.v, t)
    [] row.eos = "additive" -> IF Has(e.bal, "eos") THEN EosAdditive(e.bal, TolOf(c).bal) ELSE {}
    [] OTHER -> {}

PdeNames(c) == DOMAIN TermCount[RowOf(c).pde]
PdeShapeOK(c, e) == \A n \in PdeNames(c) : Has(e.bal, n) /\ Len(e.bal[n]) = TermCount[RowOf(c).pde][n]
(* kind "eulerclock" (Guderley): the call accepts the time t = 0.750024322 (t_L + 1) and returns velocity, pressure and energy   *)
(* in the units of the similarity solution's own time t_L (documented in ramsey.py: "the results will be in terms of the        *)
(* Lazarus time").  The documented equations are therefore demanded in either clock: a balance must close with the time          *)
(* derivative taken in t or in t_L (a solution that solves no Euler equations at all closes in neither; a future rescaling of the *)
(* returned fields to the accepted time would close in t)                                                                         *)
Clocked == {"mass", "mom", "ener"}
PdeClauses(c, e) ==
  IF ~e.smooth THEN {}                      \* stencil touches a located discontinuity / boundary
  ELSE Chk("PDE.shape", PdeShapeOK(c, e))
       \cup (IF ~PdeShapeOK(c, e) THEN {}
             ELSE IF RowOf(c).pde = "eulerclock"
             THEN UNION { Chk("PDE." \o n, Balanced(e.bal[n], TolOf(c).bal) \/ Balanced(e.bal[n \o "L"], TolOf(c).bal)) : n \in Clocked }
             ELSE BalClauses("PDE.", e.bal, PdeNames(c), TolOf(c).bal))

(* undisturbed state ahead of a blast wave: (rho0 r^-omega, 0, 0), evaluated by TLC from the user's parameters *)
AmbientClauses(c, e) ==
  IF Has(e, "ambient") /\ ("INT" \in Groups(c) \/ (c.fam = "RMTV" /\ "RH" \in Groups(c)))     \* RMTV: the cold gas g0 r^kappa ahead of the heat front
  THEN  LET pre == IF c.fam = "RMTV" THEN "RH.ahead." ELSE "AHEAD." IN
        Chk(pre \o "rho", Same(e.v.rho, Mul(c.par.rho0, PowQ(e.x, QNeg(c.par.omega))), 5))
   \cup Chk(pre \o "u", e.v.u.s = 0) \cup Chk(pre \o "p", e.v.p.s = 0)
  ELSE {}

(* field laws as term vectors (C13 burn times, C14 heat, C15 Blake, C18 Su-Olson): `eq` entries must balance, *)
(* `ineq` entries must sum to <= 0.  Which names exist for a family is fixed by Catalogue.FieldLaws; the      *)
(* clause prefix is the law group of the scan.                                                               *)
LawPrefix(c) == IF "RZ" \in Groups(c) THEN "RH.zone." ELSE IF "R2D" \in Groups(c) THEN "R2D." ELSE IF "RAD" \in Groups(c) THEN "RAD." ELSE IF "BURN" \in Groups(c) THEN "BURN." ELSE IF "ELAS" \in Groups(c) THEN "ELAS."
                ELSE IF "HEAT" \in Groups(c) THEN "HEAT." ELSE IF "SUOL" \in Groups(c) THEN "SUOL." ELSE "LAW."
FieldClauses(c, e) ==
  IF Groups(c) \cap {"BURN", "ELAS", "HEAT", "SUOL", "RAD", "R2D", "RZ"} # {} /\ e.fin
  THEN  Chk(LawPrefix(c) \o "unknown-law", DOMAIN e.eq \subseteq FieldLaws(c.fam).eq /\ DOMAIN e.ineq \subseteq FieldLaws(c.fam).ineq)
   \cup UNION { Chk(LawPrefix(c) \o n, Balanced(e.eq[n], TolOf(c).field)) : n \in DOMAIN e.eq }
   \cup UNION { Chk(LawPrefix(c) \o n, Sum(e.ineq[n]) <= TolOf(c).field) : n \in DOMAIN e.ineq }
  ELSE {}

PtClauses(c, e) ==
  LET g == Groups(c) IN
       AmbientClauses(c, e) \cup (IF Has(e, "ineq") THEN FieldClauses(c, e) ELSE {}) \cup
       (IF "FIN" \in g THEN Chk("FIN", e.fin) ELSE {})
  \cup (IF e.fin /\ "EOS" \in g THEN EosClauses(c, e) ELSE {})
  \cup (IF e.fin /\ "PDE" \in g THEN PdeClauses(c, e) ELSE {})
  \cup (IF e.fin /\ "ADM" \in g
        THEN AdmPoint(e.v, RowOf(c).vacuum) \ (IF c.fam = "RiemannJWL" THEN {"ADM.e>=0"} ELSE {})   \* the JWL energy is relative to a reference state
        ELSE {})

(* jump laws: flux balances in the frame of the discontinuity + compressive; *)
(* a contact carries equal pressure and normal velocity and moves with the fluid *)
(* the projection's own uncertainty of a located jump of a tabulated solver (speed good to two cells per elapsed time), capped at 2 % *)
JumpSlack(j, n) == IF Has(j, "slack") /\ n \in DOMAIN j.slack THEN Min(j.slack[n], 2000000) ELSE 0
JumpClauses(c, j) ==
  LET g == Groups(c)
      \* Mader's CJ state is extrapolated from first-cell averages of two grids (worst residual 3e-6), not a cell average itself
      t == IF c.fam = "Mader" /\ j.kind = "detonation" THEN 5000 ELSE TolOf(c).jump IN
  IF j.kind \in {"piston", "interface"} THEN {}
  ELSE IF j.kind = "cont"
  THEN \* a region boundary that the documentation describes as a characteristic: every field continuous
       (IF "RH" \in g THEN UNION { Chk("RH.unreported-jump." \o n, Balanced(j.bal[n], 100 * t)) : n \in DOMAIN j.bal } ELSE {})
  ELSE
       (IF "RH" \in g
        THEN  (IF j.kind = "slip" THEN {}
               \* a contact of the tabulated general-EOS solver is smeared over a cell: its measured speed is good to 0.5 %, and with a
               \* density contrast of 50 that error times the jump of rho E exceeds any honest flux tolerance; what a contact must satisfy
               \* (equal p, equal u, moves with the fluid) is judged below with the same measurements
               ELSE IF j.kind = "contact" /\ RowOf(c).res = "geos" THEN {}
               ELSE IF j.kind = "isoshock"        \* heat-conducting gas: the temperature is continuous, the heat flux is not (no energy balance without it)
               THEN  Chk("RH.mass", Balanced(j.bal.mass, t)) \cup Chk("RH.mom",  Balanced(j.bal.mom, t))
                \cup Chk("RH.isothermal", Balanced(j.cont.T, t)) \cup Chk("RH.shock-position", Balanced(j.cont.pos, t))
               ELSE IF Has(j, "balL")               \* two clocks (see PdeClauses): the shock speed in the accepted time or in the solution's own
               THEN UNION { Chk("RH." \o n, Balanced(j.bal[n], t) \/ Balanced(j.balL[n], t)) : n \in Clocked }
               ELSE  Chk("RH.mass", Balanced(j.bal.mass, t + JumpSlack(j, "mass")))
                \cup Chk("RH.mom",  Balanced(j.bal.mom, t + JumpSlack(j, "mom")))
                \cup Chk("RH.ener", Balanced(j.bal.ener, t + JumpSlack(j, "ener"))))
         \cup (IF Has(j, "tan") THEN Chk("RH.tangential-velocity", Balanced(j.tan, t)) ELSE {})
         \cup (IF j.kind = "slip"
               THEN  Chk("RH.slip.pressure", Balanced(j.cont.p, t)) \cup Chk("RH.slip.direction", Balanced(j.cont.dir, t))
                \cup Chk("RH.slip.along-the-flow", Balanced(j.cont.along, t))
               ELSE {})
         \cup (IF j.kind = "detonation" THEN Chk("RH.cj-sonic", Balanced(j.cj, t)) ELSE {})
         \cup (IF j.kind = "contact"
               THEN  Chk("RH.contact.p", Balanced(j.cont.p, t))
                \cup Chk("RH.contact.u", Balanced(j.cont.u, t))
                \cup Chk("RH.contact.speed", Balanced(j.cont.s, t + JumpSlack(j, "speed")))
               ELSE {})
        ELSE {})
  \cup (IF "ADM" \in g /\ j.kind \in {"shock", "isoshock"} THEN Chk("ADM.compressive", Compressive(j)) ELSE {})

(* monotone variation inside a rarefaction fan (action property on consecutive points) *)
Dir(a, b) == IF SLLt(a, b) THEN 1 ELSE IF SLLt(b, a) THEN -1 ELSE 0
StepClauses(c, p, e) ==
  IF "ADM" \in Groups(c) /\ p # NoPt /\ p.reg = e.reg /\ e.reg \in DOMAIN FanDir /\ p.fin /\ e.fin
  THEN UNION { Chk("ADM.fan-monotone." \o f, Dir(p.v[f], e.v[f]) = FanDir[e.reg][f]) : f \in {"p", "rho", "u"} }
  ELSE IF "ADM" \in Groups(c) /\ p # NoPt /\ p.reg = e.reg /\ e.reg \in DOMAIN WeakDir /\ p.fin /\ e.fin
  THEN UNION { Chk("ADM.monotone." \o f, Dir(p.v[f], e.v[f]) \in {0, WeakDir[e.reg][f]}) : f \in DOMAIN WeakDir[e.reg] }
  ELSE {}

(* integral balances (C04, C11) and bounds (C17: values between the constant states) *)
(* the projection's own quadrature uncertainty (difference between two resolutions), capped at 0.5 % *)
QuadSlack(e, n) == IF Has(e, "slack") /\ n \in DOMAIN e.slack THEN Min(e.slack[n], 500000) ELSE 0
IntClauses(c, e) ==
  IF "INT" \in Groups(c)
  THEN Chk("INT.window", e.window_ok)
       \cup UNION { Chk("INT." \o n, Balanced(e.bal[n], TolOf(c).int + QuadSlack(e, n))) : n \in DOMAIN e.bal }
  ELSE {}
BndClauses(c, e) ==
  IF "ADM" \in Groups(c)
  THEN UNION { Chk("ADM.between." \o f, SLLe(e.b[f].lo, e.b[f].min, TolOf(c).sl) /\ SLLe(e.b[f].max, e.b[f].hi, TolOf(c).sl)) : f \in DOMAIN e.b }
  ELSE {}

FinalOK(c, r) == RowOf(c).final = {} \/ r \in RowOf(c).final

GrammarOK(c, from, kind, to) == <<from, kind, to>> \in RowOf(c).grammar
RegionOK(c, r) == r \in RowOf(c).regions
=======================================================================
