----------------------------- MODULE TraceRel -----------------------------
(* Trace validation of pair relations (C07 - C10).  Every event relates    *)
(* the fields of two runs of the real solvers at corresponding points;     *)
(* the expected relation is computed by TLC from the tables of Relations.  *)
EXTENDS Relations, Json, IOUtils
TLog == JsonDeserialize(IOEnv.TRACE_FILE)
VARIABLE l
Ev == TLog[l]
Report(e, cs) == IF cs = {} THEN TRUE ELSE PrintT(ToJson([tid |-> e.tid, i |-> l, failed |-> cs]))
Init == l = 1
Next == l <= Len(TLog) /\ Report(Ev, RelClauses(Ev)) /\ l' = l + 1
Spec == Init /\ [][Next]_l
Accepted == TLCGet("stats").diameter - 1 = Len(TLog)
===========================================================================
