SPECIFICATION Spec
CONSTANTS
  Classes = {"C"}
  Objs = {1}
  Containers = {"list", "tuple", "ndarray"}
  Ns = {1, 2, 3, 7}
  Orders = {"sorted", "reversed", "shuffled", "dup", "inner"}
  MaxOps = 3
CONSTRAINT Shape
INVARIANT TypeOK
INVARIANT OnlyBuiltObjectsAreCalled
INVARIANT Emit
CHECK_DEADLOCK FALSE
