------------------------- MODULE TraceValidation -------------------------
(* Compares the observed outcome of each probe of the Validation catalogue *)
(* with the expected one.  outcome: "ok" | "finite" | "nonfinite" (all     *)
(* returned thermodynamic fields NaN / inf) | exception class name.        *)
EXTENDS Integers, Sequences, TLC, Json, IOUtils
TLog == JsonDeserialize(IOEnv.TRACE_FILE)
VARIABLE l
Ev == TLog[l]
Report(e, cs) == IF cs = {} THEN TRUE ELSE PrintT(ToJson([tid |-> e.tid, i |-> l, failed |-> cs]))

Exceptional(o) == o \notin {"ok", "finite", "nonfinite"}
Clauses(e) ==
  IF e.kind \in {"param", "member"}
  THEN IF e.violated
       THEN (IF e.outcome = "ok" THEN {"VAL.not-rejected-at-construction"} ELSE {})
            \cup (IF Exceptional(e.outcome) /\ e.outcome # "ValueError" THEN {"VAL.rejected-but-not-ValueError"} ELSE {})
       ELSE (IF e.outcome # "ok" THEN {"VAL.admissible-value-rejected"} ELSE {})
  ELSE \* time / space domain of a request
       IF e.violated
       THEN (IF e.outcome = "finite" THEN {"VAL.finite-values-outside-domain"} ELSE {})
            \cup (IF e.how = "raise" /\ ~Exceptional(e.outcome) /\ e.outcome # "finite" THEN {"VAL.documented-raise-missing"} ELSE {})
       ELSE (IF e.outcome # "finite" THEN {"VAL.nonfinite-or-raise-inside-domain"} ELSE {})

Init == l = 1
Next == l <= Len(TLog) /\ Report(Ev, Clauses(Ev)) /\ l' = l + 1
Spec == Init /\ [][Next]_l
Accepted == TLCGet("stats").diameter - 1 = Len(TLog)
==========================================================================
