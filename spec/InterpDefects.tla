--------------------------- MODULE InterpDefects ---------------------------
(* A model of the ways in which a solver that is meant to be a pure function  *)
(* (parameters, request, time) -> values can come to depend on its history.   *)
(* Interp.tla models where the CURRENT code keeps state and shows that it is   *)
(* harmless; this module names the deviations one refactoring away from it as  *)
(* alternative Call actions (constant Defect) - each was met in practice, in   *)
(* the repository's history or in the changes seeded during this work:         *)
(*   "clscache"  a value computed on first use is kept on the CLASS, keyed on  *)
(*               the request only (Cog10 constants, EHEP region polygons,      *)
(*               Su-Olson solutions),                                          *)
(*   "ctorglob"  the constructor publishes its parameters in class / module    *)
(*               state that the call reads (Blake's moduli dictionary, the     *)
(*               radiative shocks' sound speed),                               *)
(*   "objcache"  the object keeps request-derived data under an incomplete key *)
(*               (number of points and end points: Rod1D modes, Rectangle's    *)
(*               static part, EP piston's xmax),                               *)
(*   "timelag"   the call computes with the time of the previous call          *)
(*               (the 1-D Riemann wrappers),                                   *)
(*   "accum"     the call updates the stored profile in place, so that every   *)
(*               call leaves something behind (the radiative shocks' grid),    *)
(*   "batchpos"  a point's value depends on its position in the request        *)
(*               (Guderley's reflected-shock cache, 2-D Riemann's order         *)
(*               restoration, ie_Solver's interpolation).                      *)
(* Two questions are put to TLC for every defect d:                            *)
(*   (1) is d visible at all - does some behaviour violate Pure?               *)
(*   (2) do the templates that C06 replays on the real classes (InterpPlans)   *)
(*       expose it - does some template violate Pure under d?                  *)
(* (2) is the completeness obligation of the templates against this defect     *)
(* model; the harness treats a defect that no template exposes as a machinery  *)
(* failure.  With Defect = "none" no behaviour violates Pure.                  *)
EXTENDS Integers, Sequences, FiniteSets, TLC

CONSTANTS Classes, Cfgs, Objs, Variants, MaxOps, Defect

(* what a request variant looks like to an incomplete key: number of points and end points *)
Shape(v) == IF v \in {"full", "inner"} THEN "n-ends" ELSE v
(* variants in which some point is not where it is in the full request *)
Moved(v) == v \in {"perm", "inner", "dup", "subset"}

None == [none |-> TRUE]
Kind   == [c \in Classes |-> "pure"]          \* InterpPlans wants them; the defect model has one kind of class
Module == [c \in Classes |-> c]
INSTANCE InterpPlans

VARIABLES objs,     \* o -> [cls, cfg, okey (object cache: key -> variant it was filled with), lastt, ncalls]
          ccache,   \* class -> [request key -> configuration it was filled with]
          cglob,    \* class -> configuration of the object constructed last
          read,     \* what the last Call computed with: [cfg, variant, t, clean]
          last,     \* the last Call: [obj, variant, t]
          nops
dvars == <<objs, ccache, cglob, read, last, nops>>

Init == /\ objs = <<>> /\ ccache = [c \in Classes |-> <<>>] /\ cglob = [c \in Classes |-> None]
        /\ read = None /\ last = None /\ nops = 0

Construct(o, c, k) ==
  /\ o \notin DOMAIN objs
  /\ objs' = objs @@ (o :> [cls |-> c, cfg |-> <<c, k>>, okey |-> <<>>, lastt |-> 0, ncalls |-> 0])
  /\ cglob' = [cglob EXCEPT ![c] = <<c, k>>]
  /\ UNCHANGED <<ccache, read, last>>

Call(o, v, t) ==
  /\ o \in DOMAIN objs
  /\ LET ob == objs[o]  c == ob.cls  key == <<Shape(v), t>> IN
     /\ ccache' = IF Defect = "clscache" /\ <<v, t>> \notin DOMAIN ccache[c]
                  THEN [ccache EXCEPT ![c] = @ @@ (<<v, t>> :> ob.cfg)] ELSE ccache
     /\ objs' = [objs EXCEPT ![o].lastt = t, ![o].ncalls = @ + 1,
                             ![o].okey = IF Defect = "objcache" /\ key \notin DOMAIN ob.okey THEN ob.okey @@ (key :> v) ELSE ob.okey]
     /\ read' = [cfg     |-> CASE Defect = "clscache" -> ccache'[c][<<v, t>>]
                               [] Defect = "ctorglob" -> cglob[c]
                               [] OTHER -> ob.cfg,
                 variant |-> IF Defect = "objcache" THEN objs'[o].okey[key] ELSE v,
                 t       |-> IF Defect = "timelag" /\ ob.ncalls > 0 THEN ob.lastt ELSE t,
                 clean   |-> /\ (Defect = "accum" => ob.ncalls = 0)
                             /\ (Defect = "batchpos" => ~Moved(v))]
     /\ last' = [obj |-> o, variant |-> v, t |-> t]
  /\ UNCHANGED cglob

Next == /\ nops < MaxOps /\ nops' = nops + 1
        /\ \/ \E o \in Objs, c \in Classes, k \in Cfgs : Construct(o, c, k)
           \/ \E o \in Objs, v \in Variants, t \in {1, 2} : Call(o, v, t)
Spec == Init /\ [][Next]_dvars

(* the last call computed with its own object's parameters, its own request, its own time, on untouched data *)
Pure == last # None =>
          /\ read.cfg = objs[last.obj].cfg /\ read.variant = last.variant /\ read.t = last.t /\ read.clean

=============================================================================
