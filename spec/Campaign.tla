---------------------------- MODULE Campaign ----------------------------
(* Quantifier domains.  A campaign is a finite set of configurations    *)
(* (family, constructor parameters as exact rationals, time) defined    *)
(* here and enumerated by TLC; each state is printed as one JSON line   *)
(* and drives the real solver.  Tier "quick" uses the default and one   *)
(* non-default value per parameter, "thorough" two non-default values.  *)
EXTENDS Catalogue, TLC, Json

CONSTANTS Camps,   \* set of campaign names to enumerate
          Tier     \* "quick" | "thorough"

VARIABLE st
vars == <<st>>

RECURSIVE Prod(_, _)
Prod(S, D) == IF D = {} THEN {<<>>}
              ELSE LET p == CHOOSE x \in D : TRUE
                   IN  {f @@ (p :> v) : f \in Prod(S, D \ {p}), v \in S[p]}
Product(S) == Prod(S, DOMAIN S)

Pick(q, th) == IF Tier = "quick" THEN q ELSE q \cup th   \* value sets per tier

Geo   == {1, 2, 3}
Gam   == Pick({<<7, 5>>, <<5, 3>>, <<3, 1>>}, {<<6, 5>>, <<2, 1>>})
Rho   == Pick({<<1, 1>>, <<5, 2>>}, {<<1, 8>>})
UNeg  == Pick({<<-1, 1>>, <<-3, 2>>}, {<<-1, 4>>})
UPos  == Pick({<<23, 10>>, <<3, 4>>}, {<<1, 1>>})
Times == Pick({<<3, 10>>, <<17, 10>>}, {<<1, 1>>})
BigG  == Pick({<<40, 1>>, <<3, 2>>}, {<<1, 1>>})
Temp  == Pick({<<7, 5>>, <<1, 3>>}, {<<29, 10>>})

(* parameter value sets per family: [param |-> set of values]; geometry is a plain integer *)
Params(f) ==
  CASE f = "Noh"   -> [geometry |-> Geo, gamma |-> Gam, rho0 |-> Rho, u0 |-> UNeg]
    [] f \in {"Noh2", "Noh2Cog"} -> [geometry |-> Geo, gamma |-> Gam, rho0 |-> Rho, e0 |-> Pick({<<1, 1>>, <<3, 10>>}, {<<4, 1>>})]
    [] f \in RiemannFams ->
         [rl |-> Pick({<<1, 1>>, <<4, 1>>}, {<<1, 8>>}), pl |-> Pick({<<1, 1>>, <<10, 1>>}, {<<1, 10>>}),
          ul |-> Pick({<<-1, 2>>, <<0, 1>>, <<2, 1>>}, {<<1, 2>>, <<-2, 1>>}), gl |-> Pick({<<7, 5>>, <<3, 1>>}, {<<5, 3>>}),
          rr |-> Pick({<<1, 8>>, <<1, 1>>}, {<<4, 1>>}), pr |-> Pick({<<1, 10>>, <<1, 1>>, <<10, 1>>}, {}),
          ur |-> Pick({<<-2, 1>>, <<0, 1>>, <<1, 2>>}, {<<-1, 2>>, <<2, 1>>}), gr |-> Pick({<<7, 5>>, <<5, 3>>}, {<<3, 1>>}),
          xd0 |-> Pick({<<1, 2>>}, {<<-3, 1>>})]
    [] f = "Sedov" -> [geometry |-> Geo, gamma |-> Pick({<<7, 5>>, <<5, 3>>}, {<<3, 1>>}), rho0 |-> Rho,
                       omega |-> Pick({<<0, 1>>, <<1, 2>>, <<-1, 1>>, <<-2, 1>>, <<-3, 1>>, <<-4, 1>>}, {<<4, 5>>}),   \* negative: symbolic values resolved below (singular, vacuum-type, the two special exponents)
                       eblast |-> Pick({<<17, 20>>, <<2, 1>>}, {})]
    [] f = "EHEP"  -> [D |-> Pick({<<17, 20>>, <<1, 1>>}, {}), rho_0 |-> Pick({<<8, 5>>, <<1, 1>>}, {}),
                       up |-> Pick({<<1, 20>>, <<1, 10>>}, {<<0, 1>>}), xtilde |-> Pick({<<1, 1>>, <<4, 5>>}, {})]
    [] f = "Mader" -> [p_cj |-> Pick({<<3, 10>>, <<2, 1>>}, {}), d_cj |-> Pick({<<4, 5>>, <<1, 1>>}, {}),
                       gamma |-> Pick({<<3, 1>>, <<5, 2>>}, {}), u_piston |-> Pick({<<0, 1>>, <<1, 10>>}, {})]
    [] f = "EPpiston" -> [G |-> {<<143, 500>>}, Y |-> Pick({<<13, 5000>>, <<1, 200>>}, {}), rho0 |-> Pick({<<279, 100>>, <<2, 1>>}, {}),
                          up |-> Pick({<<1, 100>>, <<1, 50>>}, {}), c0 |-> {<<533, 1000>>}, s0 |-> {<<67, 50>>}, gamma |-> {<<2, 1>>},
                          model |-> {"hypo", "hyperIfin", "hyperFin"}]
    [] f = "Kenamond1" -> [geometry |-> {2, 3}, D |-> Pick({<<1, 1>>, <<2, 1>>}, {}), t_d |-> Pick({<<0, 1>>, <<1, 2>>}, {}),
                           x_d |-> {<< <<0, 1>>, <<0, 1>>, <<0, 1>> >>, << <<1, 1>>, <<1, 2>>, <<-3, 4>> >>}]
    [] f = "Kenamond2" -> [geometry |-> {2, 3}, R |-> Pick({<<3, 1>>, <<5, 2>>}, {}), D1 |-> Pick({<<2, 1>>, <<5, 2>>}, {}), D2 |-> Pick({<<1, 1>>, <<3, 2>>}, {}),
                           tshift |-> Pick({<<0, 1>>, <<4, 1>>, <<-4, 1>>}, {})]      \* a common shift of the five detonation times keeps them admissible
    [] f = "Kenamond3" -> [geometry |-> {2, 3}, R |-> Pick({<<3, 1>>, <<5, 2>>}, {}), D |-> Pick({<<2, 1>>, <<1, 1>>}, {}), t_d |-> Pick({<<0, 1>>, <<1, 2>>}, {}),
                           x_d |-> {<< <<0, 1>>, <<5, 1>>, <<0, 1>> >>, << <<1, 1>>, <<6, 1>>, <<-2, 1>> >>}]
    [] f = "DSDcyl" -> [r_1 |-> Pick({<<1, 1>>, <<4, 5>>}, {}), r_2 |-> Pick({<<2, 1>>, <<5, 2>>}, {}), D_CJ_1 |-> Pick({<<1, 2>>, <<1, 1>>}, {}),
                        D_CJ_2 |-> Pick({<<1, 1>>, <<3, 2>>}, {}), alpha_1 |-> Pick({<<1, 10>>, <<0, 1>>}, {}), alpha_2 |-> Pick({<<1, 10>>, <<1, 5>>}, {}),
                        t_d |-> Pick({<<0, 1>>, <<3, 10>>}, {})]
    [] f = "Blake" -> [ref_density |-> Pick({<<3, 1>>, <<5, 2>>}, {}), cavity_radius |-> Pick({<<1, 10>>, <<2, 25>>}, {}),
                       pressure_scale |-> Pick({<<1, 1000>>, <<1, 500>>}, {}), lame_mod |-> Pick({<<25, 1>>, <<30, 1>>}, {}),
                       shear_mod |-> Pick({<<25, 1>>, <<20, 1>>}, {})]
    [] f = "Rod1D" -> [kappa |-> Pick({<<1, 1>>, <<1, 2>>}, {}), L |-> Pick({<<2, 1>>, <<3, 1>>}, {}), TL |-> Pick({<<3, 1>>, <<0, 1>>}, {<<1, 1>>}),
                       TR |-> Pick({<<3, 1>>, <<4, 1>>}, {}), bc |-> {"BC1", "BC2", "BC3", "BC4"}]
    [] f = "RodNH" -> \* non-homogeneous and Robin boundary conditions: alpha T + beta dT/dx = gamma at both ends
                      [kappa |-> Pick({<<1, 1>>, <<1, 2>>}, {}), L |-> Pick({<<2, 1>>}, {<<3, 1>>}), TL |-> Pick({<<3, 1>>, <<1, 1>>}, {}),
                       TR |-> Pick({<<3, 1>>, <<4, 1>>}, {}), bc |-> {"BC1", "BC2", "BC3", "BC4", "RobinA", "RobinB"},
                       g1 |-> Pick({<<2, 1>>, <<0, 1>>}, {<<-1, 1>>}), g2 |-> Pick({<<1, 1>>, <<0, 1>>}, {<<2, 1>>})]
    [] f = "Sandwich" -> [kind |-> {"PlanarSandwich", "PlanarSandwichHot", "PlanarSandwichHalf"}, kappa |-> Pick({<<1, 1>>, <<1, 2>>}, {}),
                          L |-> Pick({<<2, 1>>, <<3, 1>>}, {}), TL |-> Pick({<<0, 1>>, <<3, 1>>}, {}), TR |-> Pick({<<0, 1>>, <<2, 1>>}, {}),
                          b1 |-> Pick({<<1, 1>>, <<0, 1>>}, {<<2, 1>>}), b2 |-> Pick({<<0, 1>>, <<1, 2>>}, {})]     \* zero is an admissible boundary value
    [] f = "RiemannJWL" -> \* the two JWL problems shipped with the repository, with rescaled left density / right pressure and a left velocity
                           [case |-> {"Shyue", "Lee"}, rscale |-> Pick({<<1, 1>>, <<6, 5>>}, {<<4, 5>>}), pscale |-> Pick({<<1, 1>>, <<3, 2>>}, {}),
                            ul |-> Pick({<<0, 1>>, <<1, 5>>}, {<<-1, 5>>})]
    [] f = "SDRZ" -> [D |-> Pick({<<17, 20>>, <<1, 1>>}, {<<2, 1>>}), rho_0 |-> Pick({<<8, 5>>, <<1, 1>>}, {}), gamma |-> Pick({<<3, 1>>, <<7, 5>>}, {<<5, 3>>})]
    [] f = "BBNoh" -> \* black-box-EOS Noh: EOS class, its gamma and one further constant (sound speed / co-volume scale)
                      [eos |-> {"ideal", "stiffened", "noble_abel", "carnahan_starling"}, gamma |-> Pick({<<5, 3>>, <<7, 5>>}, {<<3, 1>>}),
                       c1 |-> Pick({<<1, 1>>, <<1, 2>>}, {}), symmetry |-> {0, 1, 2}, rho0 |-> Pick({<<1, 1>>, <<2, 1>>}, {}), u0 |-> Pick({<<-1, 1>>, <<-3, 2>>}, {})]
    [] f = "Riemann2D" -> \* supersonic bottom / top states: pressure, density, Mach number, flow angle (degrees), gamma
                          [pB |-> Pick({<<1, 1>>, <<2, 1>>}, {}), rB |-> Pick({<<1, 1>>}, {<<1, 2>>}), MB |-> Pick({<<12, 5>>, <<3, 1>>}, {<<4, 1>>}),
                           thB |-> Pick({<<0, 1>>, <<5, 1>>}, {<<-5, 1>>}), gB |-> Pick({<<7, 5>>, <<5, 3>>}, {}),
                           pT |-> Pick({<<1, 2>>, <<3, 1>>}, {<<1, 1>>}), rT |-> Pick({<<1, 4>>, <<1, 1>>}, {}), MT |-> Pick({<<7, 1>>, <<3, 1>>}, {<<2, 1>>}),
                           thT |-> Pick({<<0, 1>>, <<-5, 1>>}, {<<10, 1>>}), gT |-> Pick({<<7, 5>>}, {<<5, 3>>})]
    [] f = "Guderley" -> \* gamma = 2, 3 (, 4): the similarity exponent takes seconds; minutes per call for 1.4 or 5/3
                         [geometry |-> {2, 3}, gamma |-> Pick({<<3, 1>>}, {<<2, 1>>, <<4, 1>>}), rho0 |-> Pick({<<1, 1>>, <<5, 2>>}, {})]
    [] f = "RMTV" -> \* the tri-lab problem (a, b, gamma, xi_f, xi_s and its eigenvalue beta0 fixed); position of the heat front = time
                     [rf |-> Pick({<<9, 10>>, <<1, 2>>}, {<<3, 10>>}), chi0 |-> Pick({<<1, 1>>, <<2, 1>>}, {}), g0 |-> Pick({<<1, 1>>}, {<<2, 1>>}),
                      bigamma |-> Pick({<<1, 1>>, <<2, 1>>}, {})]
    [] f = "RadShock" -> \* Cv in units of the default 1.4472799784454e12 erg/(g eV)
                         [solver |-> Pick({"ED", "nED", "LM_nED", "Sn"}, {"FLD_LP", "FLD_1", "FLD_2"}), M0 |-> Pick({<<6, 5>>, <<2, 1>>}, {<<21, 20>>, <<3, 1>>, <<5, 1>>}),
                          gamma |-> Pick({<<5, 3>>, <<7, 5>>}, {}), Cv |-> Pick({<<1, 1>>, <<1, 2>>}, {}), Tref |-> Pick({<<100, 1>>, <<200, 1>>}, {}),
                          rho0 |-> Pick({<<1, 1>>, <<2, 1>>}, {<<1, 2>>}),
                          opac |-> {"constant", "lowrie", "kramers+scattering"}]      \* cross-section coefficients and exponents (resolved by the driver)
    [] f = "SuOlson" -> [epsilon |-> Pick({<<1, 1>>, <<1, 10>>}, {<<2, 1>>, <<1, 2>>}), opac |-> Pick({<<1, 1>>, <<5, 2>>}, {}),
                         trad_bc_ev |-> Pick({<<1000, 1>>, <<300, 1>>}, {})]
    [] f = "Rectangle" -> [kappa |-> Pick({<<1, 1>>, <<1, 2>>}, {}), a |-> Pick({<<2, 1>>, <<3, 1>>}, {}), b |-> Pick({<<2, 1>>, <<1, 1>>}, {}),
                           Ttop |-> Pick({<<1, 1>>, <<3, 1>>}, {})]
    [] f = "CylSandwich" -> \* quarter annulus a < r < b, 0 < theta < pi/2; 8 s per call (the eigenvalues are recomputed by every call)
                            [kappa |-> Pick({<<1, 1>>}, {<<1, 2>>}), a |-> {<<1, 4>>}, b |-> Pick({<<17, 20>>}, {<<1, 1>>}), T0 |-> Pick({<<0, 1>>, <<2, 1>>}, {}),
                             T1 |-> Pick({<<1, 1>>}, {<<3, 1>>})]
    [] f = "Hutchens2" -> [k |-> Pick({<<1, 1>>, <<2, 1>>}, {}), g0 |-> Pick({<<3, 1>>, <<0, 1>>}, {}), Tb |-> Pick({<<5, 1>>, <<2, 1>>}, {}),
                           T0 |-> Pick({<<2, 1>>, <<1, 1>>}, {}), TL |-> Pick({<<1, 1>>, <<3, 1>>}, {}), b |-> Pick({<<1, 1>>, <<3, 2>>}, {}), L |-> Pick({<<2, 1>>, <<1, 1>>}, {})]
    [] f = "Hutchens1" -> [k |-> Pick({<<1, 1>>, <<2, 1>>}, {}), cp |-> Pick({<<1, 1>>, <<1, 2>>}, {}), rho |-> Pick({<<1, 1>>, <<8, 1>>}, {}),
                           Tb |-> Pick({<<5, 1>>, <<3, 1>>}, {}), T0 |-> Pick({<<1, 1>>, <<2, 1>>}, {}), b |-> Pick({<<1, 1>>, <<3, 2>>}, {})]
    [] f = "Cog1"  -> [geometry |-> Geo, gamma |-> Gam, rho0 |-> Rho, temp0 |-> Temp, b |-> Pick({<<6, 5>>, <<-1, 2>>}, {<<0, 1>>}), Gamma |-> BigG]
    [] f = "Cog2"  -> [geometry |-> Geo, gamma |-> Gam, rho0 |-> Rho, b |-> Pick({<<6, 5>>, <<-1, 2>>}, {<<3, 1>>}), Gamma |-> BigG]
    [] f = "Cog3"  -> [geometry |-> Geo, rho0 |-> Rho, b |-> Pick({<<6, 5>>, <<-1, 2>>}, {<<3, 1>>}), v |-> Pick({<<1, 2>>, <<-3, 2>>}, {<<-2, 1>>}), Gamma |-> BigG]
    [] f = "Cog4"  -> [geometry |-> Geo, gamma |-> Pick({<<7, 5>>, <<1, 2>>}, {<<3, 4>>}), rho0 |-> Rho, u0 |-> UPos, Gamma |-> BigG]
    [] f = "Cog5"  -> [rho0 |-> Rho, u0 |-> UPos, Gamma |-> BigG]
    [] f = "Cog6"  -> [geometry |-> Geo, rho0 |-> Rho, tau |-> Pick({<<5, 4>>, <<3, 1>>}, {<<2, 1>>}), b |-> Pick({<<6, 5>>, <<3, 1>>}, {<<-1, 2>>}), Gamma |-> BigG]
    [] f = "Cog7"  -> [geometry |-> Geo, tau |-> Pick({<<5, 4>>, <<3, 1>>}, {<<2, 1>>}), b |-> Pick({<<6, 5>>, <<0, 1>>}, {<<-1, 2>>}), R0 |-> Pick({<<2, 1>>, <<3, 1>>}, {}), Ri |-> Pick({<<1, 10>>, <<1, 2>>}, {}), Gamma |-> BigG]
    [] f = "Cog8"  -> [geometry |-> Geo, gamma |-> Gam, alpha |-> Pick({<<2, 1>>, <<-3, 2>>}, {<<-1, 1>>}), beta |-> Pick({<<1, 1>>, <<5, 2>>}, {<<2, 1>>}), rho0 |-> Rho, temp0 |-> Temp, Gamma |-> BigG]
    [] f = "Cog9"  -> [geometry |-> Geo, gamma |-> Gam, alpha |-> Pick({<<2, 1>>, <<-3, 2>>}, {<<-1, 1>>}), beta |-> Pick({<<1, 1>>, <<5, 2>>}, {<<2, 1>>}), rho0 |-> Rho, Gamma |-> BigG]
    [] f = "Cog10" -> [geometry |-> {2, 3}, gamma |-> Gam, beta |-> Pick({<<1, 1>>, <<5, 2>>}, {<<2, 1>>}), lambda0 |-> Pick({<<1, 10>>, <<3, 1>>}, {}), rho0 |-> Rho, temp0 |-> Temp, Gamma |-> BigG]
    [] f = "Cog11" -> [geometry |-> Geo, gamma |-> Gam, beta |-> Pick({<<1, 1>>, <<5, 2>>}, {<<2, 1>>}), rho0 |-> Rho, temp0 |-> Temp, Gamma |-> BigG]
    [] f = "Cog12" -> [geometry |-> {2, 3}, gamma |-> Pick({<<7, 5>>, <<1, 2>>}, {<<3, 4>>}), beta |-> Pick({<<1, 1>>, <<5, 2>>}, {<<2, 1>>}), rho0 |-> Rho, u0 |-> UPos, Gamma |-> BigG]
    [] f = "Cog13" -> [geometry |-> Geo, gamma |-> Gam, rho0 |-> Rho, alpha |-> Pick({<<2, 1>>, <<-3, 2>>}, {<<-1, 1>>}), beta |-> Pick({<<1, 1>>, <<5, 2>>}, {<<2, 1>>}), lambda0 |-> Pick({<<1, 10>>, <<3, 1>>}, {}), Gamma |-> BigG]
    [] f = "Cog14" -> [geometry |-> {2, 3}, gamma |-> Gam, rho0 |-> Rho, alpha |-> Pick({<<2, 1>>, <<-3, 2>>}, {<<-1, 1>>}), beta |-> Pick({<<1, 1>>, <<5, 2>>}, {<<2, 1>>}), lambda0 |-> Pick({<<1, 10>>, <<3, 1>>}, {}), Gamma |-> BigG]
    [] f = "Cog16" -> [geometry |-> {2, 3}, gamma |-> Gam, u0 |-> UPos, b |-> Pick({<<6, 5>>, <<1, 2>>}, {<<3, 4>>}), lambda0 |-> Pick({<<1, 10>>, <<3, 1>>}, {}), Gamma |-> BigG]
    \* Cog17: of these exponents only alpha = -3 gives T0 > 0 and a real rho0 (Defined)
    [] f = "Cog17" -> [geometry |-> Geo, gamma |-> Gam, alpha |-> Pick({<<2, 1>>, <<-3, 1>>}, {<<-3, 2>>, <<-1, 1>>}), beta |-> Pick({<<1, 1>>, <<5, 2>>}, {<<2, 1>>}), lambda0 |-> Pick({<<1, 10>>, <<3, 1>>}, {}), Gamma |-> BigG]
    [] f = "Cog18" -> [geometry |-> Geo, alpha |-> Pick({<<2, 1>>, <<-3, 2>>}, {<<-1, 1>>}), beta |-> Pick({<<1, 1>>, <<5, 2>>}, {<<2, 1>>}), rho0 |-> Rho, tau |-> Pick({<<5, 4>>, <<3, 1>>}, {<<2, 1>>}), Gamma |-> BigG]
    [] f = "Cog19" -> [geometry |-> Geo, gamma |-> Gam, rho0 |-> Rho, u0 |-> UNeg, Gamma |-> BigG]
    [] f = "Cog20" -> [geometry |-> Geo, gamma |-> Gam, rho0 |-> Rho, u0 |-> Pick({<<23, 10>>, <<-1, 1>>}, {<<3, 4>>}), a |-> Pick({<<3, 10>>, <<-1, 2>>}, {<<1, 10>>}), Gamma |-> BigG]
    [] f = "Cog21" -> [rho0 |-> Rho, temp0 |-> Temp, Gamma |-> Pick({<<400, 1>>, <<3, 2>>}, {<<40, 1>>})]

(* times in the documented validity interval *)
TimesOf(f, p) ==
  CASE f \in {"Noh2", "Noh2Cog"} -> Pick({<<3, 10>>, <<4, 5>>}, {<<1, 20>>})          \* t < 1
    [] f \in {"Cog6", "Cog18"} -> {<<p.tau[1] * x[1], p.tau[2] * x[2]>> : x \in Pick({<<1, 4>>, <<-1, 2>>}, {<<4, 5>>})}  \* |t| < tau
    [] f = "Cog7" -> {<<p.tau[1] * x[1], p.tau[2] * x[2]>> : x \in Pick({<<1, 4>>, <<1, 2>>}, {<<4, 5>>})}              \* 0 < t < tau (t <= 0 returns NaN as documented)
    [] f = "Cog20" -> Pick({<<3, 10>>, <<17, 10>>}, {<<1, 1>>})
    [] f \in RiemannFams -> Pick({<<3, 10>>}, {<<1, 4>>, <<2, 1>>})       \* (1/4 is the constructors' default end time: a solver that ignored the requested time would not be noticed there)
    [] f = "Sedov" -> Pick({<<1, 2>>, <<1, 1>>}, {<<17, 10>>})
    [] f = "EHEP"  -> Pick({<<1, 2>>, <<2, 1>>, <<5, 1>>}, {<<8, 1>>})
    [] f = "Mader" -> Pick({<<3, 1>>, <<5, 1>>}, {})
    [] f = "EPpiston" -> Pick({<<1, 50>>, <<1, 20>>}, {})
    [] f \in {"Kenamond1", "Kenamond2", "Kenamond3", "DSDcyl"} -> {<<1, 1>>}      \* burn-time fields do not depend on t
    [] f = "Blake" -> Pick({<<1, 20>>, <<1, 10>>}, {})
    [] f \in {"RadShock", "Riemann2D", "RMTV"} -> {<<1, 1>>}
    [] f = "BBNoh" -> Pick({<<3, 5>>}, {<<3, 2>>})
    [] f = "RiemannJWL" -> Pick({<<12, 1>>}, {<<5, 1>>})
    [] f = "SDRZ" -> Pick({<<1, 2>>, <<2, 1>>, <<13, 5>>}, {<<1, 1>>})       \* before / after the end of the reaction (t = 1), 2.6 is not on the solver's time grid
    [] f = "SuOlson" -> Pick({<<1, 10>>, <<1, 1>>, <<10, 1>>}, {<<1, 100>>, <<3, 1>>})     \* dimensionless time tau
    [] f = "Guderley" -> Pick({<<2, 5>>, <<1, 1>>}, {<<13, 20>>, <<3, 2>>})      \* the shock collapses at t = 0.750024322: before and after
    [] f \in {"Rod1D", "Hutchens1", "RodNH", "Sandwich", "Rectangle", "Hutchens2"} -> Pick({<<1, 10>>, <<1, 2>>}, {<<1, 100>>})
    [] f = "CylSandwich" -> Pick({<<1, 10>>}, {<<1, 2>>})
    [] OTHER -> Times

(* configurations whose closed form is defined (no division by zero, no  *)
(* fractional power of a negative number): the mathematics, not a        *)
(* documented restriction of the solver                                  *)
Geom(f, p) == IF "geometry" \in DOMAIN p THEN p.geometry
              ELSE IF f \in RiemannFams \cup {"RiemannJWL"} \cup {"EHEP", "Mader", "EPpiston", "Rod1D", "RodNH", "Sandwich", "SuOlson", "RadShock", "SDRZ"} THEN 1 ELSE IF f \in {"Riemann2D", "CylSandwich"} THEN 2 ELSE IF f = "BBNoh" THEN p.symmetry + 1 ELSE IF f = "DSDcyl" THEN 2 ELSE 3
Defined(f, p, t) ==
  LET k == Geom(f, p) - 1 IN
  CASE f \in RiemannFams -> /\ ~(QEq(p.pl, p.pr) /\ QEq(p.ul, p.ur))                   \* a pure contact has no acoustic waves
                            /\ ~(QEq(p.pl, p.pr) /\ QEq(p.rl, p.rr) /\ QEq(p.gl, p.gr))  \* mirror-symmetric data: no contact
    \* the discrete-ordinates solver takes 20 s for M0 = 1.2 and minutes beyond: one configuration in the quick tier, weak shocks in the thorough tier
    [] f = "RadShock" -> \* quick tier: the non-default density goes with the non-default specific heat (keeps the number of configurations)
                         /\ (Tier = "quick" => (QEq(p.rho0, <<1, 1>>) <=> QEq(p.Cv, <<1, 1>>)))
                         /\ p.solver = "Sn" => /\ QLe(p.M0, <<6, 5>>) /\ p.opac = "constant"
                                           /\ (Tier = "quick" => QEq(p.gamma, <<5, 3>>) /\ QEq(p.Cv, <<1, 1>>) /\ QEq(p.Tref, <<100, 1>>))
    [] f = "Riemann2D" -> ~(QEq(p.pB, p.pT) /\ QEq(p.thB, p.thT))     \* equal pressures and directions: a pure slip line, no waves
    [] f = "BBNoh" -> p.eos # "ideal" => p.symmetry = 0     \* with a non-ideal EOS the cold converging inflow is not an EOS state (section 7)
    [] f = "Sedov" -> QLt(p.omega, <<Geom(f, p), 1>>) /\ QLe(<<0, 1>>, p.omega)
    [] f = "DSDcyl" -> QLt(p.r_1, p.r_2) /\ QLt(QDiv(p.alpha_1, p.D_CJ_1), p.r_1) /\ QLt(QDiv(p.alpha_2, p.D_CJ_2), p.r_2)
    [] f = "Kenamond2" -> QLe(p.D2, p.D1)
    [] f = "RodNH" -> p.bc = "BC2" => QEq(p.g1, p.g2)          \* documented: equal fluxes at both ends
    [] f = "Cog2"  -> ~QEq(p.b, <<-2, 1>>)
    [] f = "Cog3"  -> ~QEq(p.v, <<k - 1, 1>>) /\ ~QEq(p.v, <<0, 1>>)
    [] f = "Cog6"  -> ~QEq(p.b, <<-2, 1>>)
    [] f = "Cog7"  -> QLt(p.Ri, p.R0)
    [] f = "Cog11" -> ~QEq(QMul(QSub(p.gamma, <<1, 1>>), <<k + 1, 1>>), <<2, 1>>)
    [] f = "Cog13" -> \* the amplitude T0 is a real power of (c6 c8 c9): the base must be positive
                      QSgn(QMul(QAdd(QSub(p.alpha, <<1, 1>>), QMul(QAdd(p.beta, <<3, 1>>), QSub(p.gamma, <<1, 1>>))),
                                QSub(QAdd(p.beta, <<4, 1>>), p.alpha))) > 0
    [] f = "Cog17" -> LET k1 == <<k + 1, 1>>
                          oma == QSub(<<1, 1>>, p.alpha)
                          x1 == QSub(QMul(<<2, 1>>, p.beta), <<4, 1>>)
                          x2 == QAdd(QMul(<<2, 1>>, p.beta), <<5, 1>>)
                          x3 == QAdd(x1, QMul(oma, k1))
                          x4 == QSub(<<9, 1>>, QMul(oma, k1))
                          x5 == QAdd(x1, QMul(<<2, 1>>, oma))
                          x7 == QAdd(QDiv(QMul(p.alpha, x1), IF QSgn(oma) = 0 THEN <<1, 1>> ELSE oma), QAdd(QMul(<<2, 1>>, p.beta), <<k + 7, 1>>))
                      IN  /\ QSgn(oma) # 0 /\ QSgn(x3) # 0 /\ QSgn(x5) # 0 /\ QSgn(x7) # 0
                          /\ QSgn(QMul(QMul(x2, QNeg(oma)), QDiv(x4, x5))) > 0          \* T0 > 0
                          /\ LET u0 == QDiv(x2, x3)
                                  x6 == QAdd(<<-2, 1>>, QMul(u0, QAdd(<<2, 1>>, QMul(QSub(p.gamma, <<1, 1>>), k1))))
                              IN  QSgn(QDiv(x6, x7)) > 0                               \* rho0 is a real power of a positive base
    [] f = "Cog14" -> LET b == QDiv(QSub(<<k - 1, 1>>, QMul(p.alpha, <<k, 1>>)),
                                    QSub(QAdd(<<2, 1>>, p.alpha), QMul(<<2, 1>>, QAdd(p.beta, <<4, 1>>))))
                      IN  QLt(<<0, 1>>, b) /\ QLt(b, <<k, 1>>)
    [] f = "Cog16" -> QLt(<<0, 1>>, p.b) /\ QLt(p.b, <<k, 1>>)
    [] f = "Cog20" -> ~QEq(QMul(p.a, t), <<1, 1>>) /\ QLt(QMul(p.a, t), <<1, 2>>) /\ QSgn(p.u0) * QSgn(p.a) > 0
    [] OTHER -> TRUE


(* Sedov: the density exponent at which the solution type changes, omega* = (3j - 2 + gamma (2 - j)) / (gamma + 1); *)
(* larger exponents (below the geometry j) give the vacuum type                                                    *)
OmegaSing(j, g) == QDiv(QAdd(<<3 * j - 2, 1>>, QMul(g, <<2 - j, 1>>)), QAdd(g, <<1, 1>>))
(* the two further exponents at which a denominator of the closed form vanishes and the solver switches to special formulas: *)
(* omega2 = (2 (gamma - 1) + j) / gamma, omega3 = j (2 - gamma)                                                                 *)
Resolve(f, q) ==
  IF f = "Sedov" /\ q.omega[1] < 0
  THEN LET ws == OmegaSing(q.geometry, q.gamma)
           j  == <<q.geometry, 1>>
       IN  [q EXCEPT !.omega = CASE q.omega[1] = -1 -> ws
                                 [] q.omega[1] = -2 -> QDiv(QAdd(ws, j), <<2, 1>>)
                                 [] q.omega[1] = -3 -> QDiv(QAdd(QMul(<<2, 1>>, QSub(q.gamma, <<1, 1>>)), j), q.gamma)
                                 [] OTHER           -> QMul(j, QSub(<<2, 1>>, q.gamma))]
  ELSE q

Init == \E f \in Camps : \E q \in Product(Params(f)) : \E t \in TimesOf(f, q) :
         LET p == Resolve(f, q) IN
          /\ Defined(f, p, t)
          /\ st = [fam |-> f, par |-> p, t |-> t, geometry |-> Geom(f, p),
                   gammaQ |-> GammaQ(f, Geom(f, p)), cond |-> Conduction(f, p, Geom(f, p)), row |-> Cat[f]]
Next == UNCHANGED st
Spec == Init /\ [][Next]_vars

Emit == PrintT(ToJson(st))
=======================================================================
