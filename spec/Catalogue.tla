--------------------------- MODULE Catalogue ---------------------------
(* The solver catalogue: what the documentation of each solver family   *)
(* declares - equation of state, governing equations (as balance-term   *)
(* lists), conduction kind, gamma rule, region grammar, resolution      *)
(* class.  Trace validation looks laws up here; drivers get the row of  *)
(* their family with each campaign state, so they carry no physics of   *)
(* their own.                                                           *)
EXTENDS Numbers

(* number of terms of each balance, per PDE form: the projection must   *)
(* deliver exactly these vectors (a structural check of the binding)    *)
TermCount ==
  [ euler    |-> [mass |-> 4, mom |-> 3, ener |-> 4],
    eulersim |-> [mass |-> 4, mom |-> 3, ener |-> 4, similar |-> 2],      \* self-similar flow: d/dt = -(xi/t) d/dxi, similarity checked alongside
    cognone  |-> [mass |-> 4, mom |-> 4, ener |-> 5],
    cogdiv   |-> [mass |-> 4, mom |-> 4, ener |-> 5, flux |-> 4],
    cogfull  |-> [mass |-> 4, mom |-> 4, ener |-> 5],
    \* Guderley: the balances in the time the call accepts and (suffix L) in the similarity solution's own (Lazarus) time, see Profile
    eulerclock |-> [mass |-> 4, mom |-> 3, ener |-> 4, massL |-> 4, momL |-> 3, enerL |-> 4],
    rmtv     |-> [mass |-> 4, mom |-> 3, ener |-> 5],                     \* energy: e_t, u e_r, -(p/rho^2) rho_t, -(p/rho^2) u rho_r, -div(chi grad T)/rho
    none     |-> [x \in {} |-> 0] ]

(* region grammar: allowed <<from, wave, to>> along increasing position *)
G_Smooth   == {}
G_PostPre  == {<<"post", "shock", "pre">>}

G_Riemann  == {<<"L", "shock", "Ls">>, <<"L", "cont", "fanL">>, <<"fanL", "cont", "Ls">>,
               <<"Ls", "contact", "Rs">>,
               <<"Rs", "shock", "R">>, <<"Rs", "cont", "fanR">>, <<"fanR", "cont", "R">>}
R_Riemann  == {"L", "fanL", "Ls", "Rs", "fanR", "R"}
(* 2-D steady problem, sweep in polar angle from the bottom state to the top state *)
G_Riemann2D == {<<"B", "shock", "Bs">>, <<"B", "cont", "fanB">>, <<"fanB", "cont", "Bs">>, <<"Bs", "slip", "Ts">>,
                <<"Ts", "shock", "T">>, <<"Ts", "cont", "fanT">>, <<"fanT", "cont", "T">>}

(* final: regions in which a complete scan may end ({} = anywhere) *)
RowF(eos, pde, res, regs, gram, vac, fin) ==
  [eos |-> eos, pde |-> pde, res |-> res, regions |-> regs, grammar |-> gram, vacuum |-> vac, final |-> fin]
Row(eos, pde, res, regs, gram, vac) == RowF(eos, pde, res, regs, gram, vac, {})

(* which side's gamma applies in a region of a two-gamma problem *)
SideOf(reg) == IF reg \in {"L", "fanL", "Ls", "B", "fanB", "Bs"} THEN "l" ELSE "r"
(* direction of variation with increasing x inside a rarefaction fan:   *)
(* +1 increasing, -1 decreasing (pressure and density fall towards the  *)
(* star state; velocity rises across both fans of an expansion)         *)
(* regions in which the profile is monotone but may be flat (Taylor wave + constant state of Mader, from the CJ end) *)
WeakDir == [mader |-> [p |-> -1, rho |-> -1, u |-> -1, c |-> -1]]
FanDir == [fanL |-> [p |-> -1, rho |-> -1, u |-> 1],
           fanR |-> [p |-> 1,  rho |-> 1,  u |-> 1]]

CogNone == {"Cog1", "Cog2", "Cog3", "Cog4", "Cog5", "Cog6", "Cog7"}
CogDiv  == {"Cog8", "Cog9", "Cog11", "Cog12", "Cog18"}
CogFull == {"Cog10", "Cog13", "Cog14", "Cog16", "Cog17"}
CogShock == {"Cog19", "Cog20", "Cog21"}

RiemannFams == {"RiemannIG", "RiemannGen"}
(* families without a 1-D hydrodynamic scan row (burn times, heat conduction, elasticity): relation / field laws only *)
BurnFams  == {"Kenamond1", "Kenamond2", "Kenamond3", "DSDcyl"}
PlainFams == {"Rod1D", "Hutchens1", "RodNH", "Sandwich", "Rectangle", "Hutchens2", "CylSandwich"}
G_Sedov == {<<"interior", "shock", "ambient">>, <<"vacuum", "cont", "interior">>}
G_Piston == {<<"plastic", "shock", "elastic">>, <<"elastic", "shock", "rest">>}
(* escape of HE products: product regions are separated by characteristics (continuous); the only jump is the  *)
(* detonation front into the unreacted explosive 0H                                                          *)
R_EHEP == {"00", "I", "II", "III", "IV", "V", "0H", "0V", "None"}
G_EHEP == {<<a, "cont", b>> : a \in R_EHEP \ {"0H", "00"}, b \in R_EHEP \ {"0H", "00"}}
          \cup {<<a, "detonation", "0H">> : a \in {"I", "III", "IV", "V"}}
          \cup {<<"00", "piston", b>> : b \in {"I", "II", "III", "IV", "V"}} \cup {<<"0H", "interface", "0V">>}
Families == {"Noh", "Noh2", "Noh2Cog", "Sedov", "EPpiston", "EHEP", "Mader", "BBNoh", "RiemannJWL"} \cup {"Blake", "SuOlson", "RadShock", "Riemann2D", "SDRZ", "RMTV", "Guderley"} \cup BurnFams \cup RiemannFams \cup PlainFams \cup CogNone \cup CogDiv \cup CogFull \cup CogShock

Cat == [f \in Families |->
  CASE f = "Noh"        -> Row("gamma", "euler",   "closed", {"post", "pre"}, G_PostPre, FALSE)
    [] f \in {"Noh2", "Noh2Cog"}
                        -> Row("gamma", "euler",   "closed", {"all"}, G_Smooth, FALSE)
    [] f = "Sedov"      -> RowF("gamma", "euler", "sedov", {"vacuum", "interior", "ambient"}, G_Sedov, TRUE, {"ambient"})
    [] f = "BBNoh"      -> RowF("additive", "none", "root", {"post", "pre"}, G_PostPre, FALSE, {"pre"})
    [] f = "EPpiston"   -> RowF("additive", "none", "closed", {"plastic", "elastic", "rest"}, G_Piston, FALSE, {"rest"})
    [] f = "EHEP"       -> RowF("gamma", "euler", "ehep", R_EHEP, G_EHEP, TRUE, {})
    [] f = "Mader"      -> RowF("cjisentrope", "none", "table", {"mader"}, G_Smooth, FALSE, {})
    [] f = "Riemann2D"  -> RowF("gamma2", "none", "root", {"B", "fanB", "Bs", "Ts", "fanT", "T"}, G_Riemann2D, FALSE, {"T"})
    [] f = "SDRZ"       -> RowF("sound", "none", "table", {"zone", "ahead"}, {<<"zone", "cont", "ahead">>}, FALSE, {})
    [] f = "RadShock"   -> RowF("radshock", "none", "ode", {"all", "far-downstream"}, {<<"all", "cont", "far-downstream">>, <<"far-downstream", "cont", "all">>}, FALSE, {})   \* far-downstream: the last tabulated point
    \* Reinicke / Meyer-ter-Vehn: a heat front runs ahead of an isothermal shock into cold gas rho = g0 r^kappa
    [] f = "RMTV"       -> RowF("rmtv", "rmtv", "rmtv", {"shocked", "heated", "cold"},
                                {<<"shocked", "isoshock", "heated">>, <<"heated", "cont", "cold">>}, FALSE, {"cold"})
    \* Guderley: converging shock into gas at rest (t < collapse), then a reflected shock running out into the still converging flow
    [] f = "Guderley"   -> RowF("gamma", "eulerclock", "ode", {"pre", "post", "inner", "outer"},
                                {<<"pre", "shock", "post">>, <<"inner", "shock", "outer">>}, FALSE, {"post", "outer"})
    [] f = "SuOlson"    -> RowF("suolson", "none", "root", {"all"}, G_Smooth, FALSE, {})
    [] f = "Blake"      -> RowF("none", "none", "closed", {"he"}, G_Smooth, FALSE, {})
    [] f \in BurnFams   -> RowF("none", "none", "closed", {"detonator", "he"}, G_Smooth, FALSE, {})
    [] f = "RiemannIG"  -> RowF("gamma2", "euler", "closed", R_Riemann, G_Riemann, FALSE, {"R"})
    [] f = "RiemannGen" -> RowF("additive", "eulersim", "geos",  R_Riemann, G_Riemann, FALSE, {"R"})
    [] f = "RiemannJWL" -> RowF("additive", "eulersim", "geos",  R_Riemann, G_Riemann, FALSE, {"R"})
    [] f \in PlainFams  -> Row("none",  "none",    IF f = "Mader" THEN "table" ELSE IF f \in {"Rod1D", "Hutchens1", "RodNH", "Sandwich", "Rectangle", "Hutchens2", "CylSandwich"} THEN "series" ELSE "closed", {"all"}, G_Smooth, FALSE)
    [] f \in CogNone    -> Row("cog",   "cognone", "closed", {"all"}, G_Smooth, FALSE)
    [] f \in CogDiv     -> Row("cog",   "cogdiv",  "closed", {"all"}, G_Smooth, FALSE)
    [] f \in CogFull    -> Row("cog",   "cogfull", "closed", {"all"}, G_Smooth, FALSE)
    [] f \in CogShock   -> Row("cog",   "cognone", "closed", {"post", "pre"}, G_PostPre, FALSE) ]


(* Heat conduction: lambda = lambda0 rho^alpha T^beta.  For some problems *)
(* alpha (and beta) are not free but documented functions of the other   *)
(* parameters; evaluated here in exact rationals.                        *)
Conduction(f, p, geometry) ==
  LET k  == <<geometry - 1, 1>>
      g1 == IF "gamma" \in DOMAIN p THEN QSub(p.gamma, <<1, 1>>) ELSE <<0, 1>>
      k1 == QAdd(k, <<1, 1>>)
  IN
  CASE f \in {"Cog8", "Cog9", "Cog13", "Cog14", "Cog17", "Cog18"}
          -> [alpha |-> p.alpha, beta |-> p.beta]
    [] f = "Cog10" -> [alpha |-> QSub(QAdd(p.beta, <<4, 1>>), QInv(k)), beta |-> p.beta]
    [] f = "Cog11" -> [alpha |-> QAdd(QAdd(p.beta, <<4, 1>>),
                                      QDiv(QSub(k, <<1, 1>>), QSub(<<2, 1>>, QMul(g1, k1)))),
                       beta |-> p.beta]
    [] f = "Cog12" -> [alpha |-> QAdd(QMul(QAdd(p.beta, <<4, 1>>), QNeg(g1)),
                                      QDiv(QMul(QSub(k, <<1, 1>>), QAdd(p.gamma, <<1, 1>>)), QMul(<<2, 1>>, k))),
                       beta |-> p.beta]
    [] f = "Cog16" -> LET a == QSub(<<1, 1>>, QInv(k))
                      IN  [alpha |-> a, beta |-> QSub(QDiv(a, <<2, 1>>), <<3, 1>>)]
    [] OTHER -> [alpha |-> <<0, 1>>, beta |-> <<0, 1>>]

(* Field laws of the non-hydrodynamic families: the balances (eq) and one-sided bounds (ineq) that a point of *)
(* a scan may carry; the projection supplies the term vectors, the names and their meaning are fixed here.   *)
(* Blake (C15): spherical elastic wave equation u_tt = c_L^2 (u_rr + 2 u_r / r - 2 u / r^2); strains are the    *)
(* derivatives of the displacement; Hooke's law, pressure, deviators, density; sigma_rr(a, t) = -p0.          *)
FieldLaws(f) ==
  CASE f \in BurnFams -> [eq |-> {"det-time", "eikonal"}, ineq |-> {"det-not-late", "causal", "lipschitz"}]
    [] f = "Blake"    -> [eq |-> {"wave", "strain_rr=du/dr", "strain_qq=u/r", "strain_vol", "curr_posn", "density", "hooke_rr", "hooke_qq",
                                  "pressure", "dev_rr", "dev_qq", "stress_diff", "cavity", "zero-ahead"}, ineq |-> {}]
    [] f \in {"Rod1D", "RodNH", "Sandwich", "Hutchens1", "Hutchens2", "Rectangle", "CylSandwich"}
                      -> [eq |-> {"heat", "bc-left", "bc-right", "bc-bottom", "bc-top", "bc-surface", "initial", "steady", "regular"}, ineq |-> {}]
    [] f = "Riemann2D" -> [eq |-> {"speed2=u2+v2", "mach=speed/c", "fan.turning=nu(M2)-nu(M1)", "fan.isentropic", "fan.total-enthalpy",
                                   "shock.density-ratio", "shock.turning=theta(beta,M)", "shock.mach-behind"}, ineq |-> {}]
    [] f = "SDRZ" -> [eq |-> {"mass-flux", "rayleigh-line", "energy", "sound", "ahead"}, ineq |-> {"lambda<=1", "lambda>=0"}]
    [] f = "RadShock" -> [eq |-> {"mass-flux", "momentum-flux", "energy-flux", "upstream.rho", "upstream.T", "upstream.mach", "upstream.equilibrium",
                                  "downstream.equilibrium"} \cup {"steady." \o n : n \in {"temperature", "temperature_mat", "temperature_rad", "density", "velocity",
                                  "pressure", "specific_internal_energy", "rade", "sound_speed", "VEF"}}, ineq |-> {}]
    [] f = "SuOlson"  -> [eq |-> {"rad", "mat", "marshak"}, ineq |-> {"v<=u", "u<=1", "v>=0", "decay", "mono-x", "mono-t"}]
    [] OTHER -> [eq |-> {}, ineq |-> {}]

(* Su-Olson: documented conversion between physical and dimensionless variables.  Constants as SL numbers   *)
(* (micro-nepers): 4a = 4 * 4 sigma / c [erg cm^-3 K^-4], 4ac, sqrt(3).                                          *)
SL_4a   == [s |-> 1, l |-> -31128829]
SL_4ac  == [s |-> 1, l |-> -7005058]
SL_rt3  == [s |-> 1, l |-> 549306]

(* The gamma each family uses: "param" = the user's parameter, otherwise *)
(* a rule in k = geometry - 1 (Coggeshall 3, 5, 6, 7, 18, 21).           *)
GammaRule(f) ==
  CASE f = "Cog3"  -> "(k-1)/(k+1)"
    [] f = "Cog5"  -> "1/2"
    [] f \in {"Cog6", "Cog7", "Cog18"} -> "(k+3)/(k+1)"
    [] f = "Cog21" -> "5"
    [] OTHER -> "param"
GammaQ(f, geometry) ==
  LET k == geometry - 1 IN
  CASE GammaRule(f) = "(k-1)/(k+1)" -> <<k - 1, k + 1>>
    [] GammaRule(f) = "1/2"         -> <<1, 2>>
    [] GammaRule(f) = "(k+3)/(k+1)" -> <<k + 3, k + 1>>
    [] GammaRule(f) = "5"           -> <<5, 1>>
    [] OTHER -> <<0, 1>>
=======================================================================
