-------------------------- MODULE InterpTemplates --------------------------
(* Systematic behaviours of Interp, one family per way state can leak:      *)
(*   "times"  one object called at two times and with a permuted request    *)
(*            (a value cached by the first call and reused by the second),  *)
(*   "pair"   two objects of ONE class with different parameter sets,       *)
(*            constructed first and then called alternately (class-level or *)
(*            module-level state written by the constructor or by a call),  *)
(*   "module" two objects of two classes that share a module.               *)
(* TLC steps every template through the actions of Interp (so each is a     *)
(* behaviour of the model, with HistoryIndependent checked on the way) and  *)
(* prints it for replay on the real classes.                                *)
EXTENDS Interp, Json

VARIABLES plan, pos
tvars == <<objs, glob, shtol, dicts, read, hist, plan, pos>>

C(o, c, k)   == [op |-> "Construct", obj |-> o, cls |-> c, cfg |-> k, dict |-> o]
K(o, v, t)   == [op |-> "Call", obj |-> o, variant |-> v, t |-> t]
S(o)         == [op |-> "Solve", obj |-> o]
T(o, x)      == [op |-> "SetTol", obj |-> o, tol |-> x]
Qy(o, q)     == [op |-> "Query", obj |-> o, q |-> q]

Plans ==
     {<<C(1, c, k), K(1, "full", 1), K(1, "full", 2), K(1, "perm", 1), K(1, "full", 1), K(1, "inner", 1)>> : c \in Classes, k \in Cfgs}
\cup {<<C(1, c, 1), C(2, c, 2), K(1, "full", 1), K(2, "full", 1), K(1, "full", 1), K(2, "subset", 2), K(1, "dup", 2)>> : c \in Classes}
\cup {<<C(1, c, 2), K(1, "full", 1), C(2, c, 1), K(2, "full", 1), K(1, "full", 1)>> : c \in Classes}
\cup UNION {{<<C(1, c, 1), C(2, d, 1), K(1, "full", 1), K(2, "full", 1), K(1, "full", 1)>> :
                  d \in {x \in Classes : x # c /\ Module[x] = Module[c]}} : c \in Classes}
\cup {<<C(1, c, 1), T(1, 2), S(1), C(2, c, 2), T(2, 1), S(2), K(1, "full", 1), K(2, "full", 1), S(1), K(1, "full", 2)>> :
         c \in {x \in Classes : Kind[x] = "bbox"}}

QueryPlans == {<<C(1, c, k), Qy(1, 1), K(1, "full", 1), Qy(1, 2), K(1, "full", 1)>> : c \in Classes, k \in Cfgs}

Apply(e) ==
  CASE e.op = "Construct" -> Construct(e.obj, e.cls, e.cfg, e.dict)
    [] e.op = "Call"      -> Call(e.obj, e.variant, e.t)
    [] e.op = "Solve"     -> Solve(e.obj)
    [] e.op = "SetTol"    -> SetTol(e.obj, e.tol)
    [] e.op = "Query"     -> Query(e.obj, e.q)

PInit == Init /\ plan \in Plans \cup QueryPlans /\ pos = 1
PNext == pos <= Len(plan) /\ Apply(plan[pos]) /\ pos' = pos + 1 /\ UNCHANGED plan
PSpec == PInit /\ [][PNext]_tvars
PEmit == IF pos = Len(plan) + 1 THEN PrintT(ToJson([behaviour |-> hist])) ELSE TRUE
(* every template runs to its end: each step was an enabled action of Interp *)
PComplete == <>(pos = Len(plan) + 1)
=============================================================================
