-------------------------- MODULE InterpTemplates --------------------------
(* Systematic behaviours of Interp, one family per way state can leak:      *)
(*   "times"  one object called at two times and with a permuted request    *)
(*            (a value cached by the first call and reused by the second),  *)
(*   "pair"   two objects of ONE class with different parameter sets,       *)
(*            constructed first and then called alternately (class-level or *)
(*            module-level state written by the constructor or by a call),  *)
(*   "module" two objects of two classes that share a module.               *)
(* TLC steps every template through the actions of Interp (so each is a     *)
(* behaviour of the model, with HistoryIndependent checked on the way) and  *)
(* prints it for replay on the real classes.                                *)
EXTENDS Interp, Json

VARIABLES plan, pos
tvars == <<objs, glob, shtol, dicts, read, hist, plan, pos>>

INSTANCE InterpPlans            \* C, K, S, T, Qy, Plans, QueryPlans

Apply(e) ==
  CASE e.op = "Construct" -> Construct(e.obj, e.cls, e.cfg, e.dict)
    [] e.op = "Call"      -> Call(e.obj, e.variant, e.t)
    [] e.op = "Solve"     -> Solve(e.obj)
    [] e.op = "SetTol"    -> SetTol(e.obj, e.tol)
    [] e.op = "Query"     -> Query(e.obj, e.q)

PInit == Init /\ plan \in Plans \cup QueryPlans /\ pos = 1
PNext == pos <= Len(plan) /\ Apply(plan[pos]) /\ pos' = pos + 1 /\ UNCHANGED plan
PSpec == PInit /\ [][PNext]_tvars
PEmit == IF pos = Len(plan) + 1 THEN PrintT(ToJson([behaviour |-> hist])) ELSE TRUE
(* every template runs to its end: each step was an enabled action of Interp *)
PComplete == <>(pos = Len(plan) + 1)
=============================================================================
