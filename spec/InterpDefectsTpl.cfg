SPECIFICATION PSpec
CONSTANTS
  Classes = {"X", "Y"}
  Cfgs = {1, 2}
  Objs = {1, 2}
  Variants = {"full", "perm", "subset", "dup", "inner"}
  MaxOps = 0
  Defect = "none"
  PlanSet = "templates"
INVARIANT Pure
CHECK_DEADLOCK FALSE
