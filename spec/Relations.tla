---------------------------- MODULE Relations ----------------------------
(* Two-run relations (properties C07 - C10): tables owned by the          *)
(* specification - dimension vectors of every parameter and field (C08),  *)
(* field parities under mirror / boost (C09), similarity exponents (C10), *)
(* routes (C07) - and the laws that relate the two runs of a pair.        *)
EXTENDS Laws, TLC

Q0 == <<0, 1>>  Q1 == <<1, 1>>
D(m, l, t, th) == <<m, l, t, th>>          \* exponents of (mass, length, time, temperature), each in Q
DN(m, l, t)    == <<<<m, 1>>, <<l, 1>>, <<t, 1>>, Q0>>
None0 == DN(0, 0, 0)
dRho   == DN(1, -3, 0)   dVel == DN(0, 1, -1)   dPrs == DN(1, -1, -2)   dSie == DN(0, 2, -2)
Len_  == DN(0, 1, 0)    dTim == DN(0, 0, 1)
dTmp   == <<Q0, Q0, Q0, Q1>>
dGam   == <<Q0, <<2, 1>>, <<-2, 1>>, <<-1, 1>>>>       \* Gamma T is a velocity squared

HydroFields == [density |-> dRho, velocity |-> dVel, pressure |-> dPrs, specific_internal_energy |-> dSie, sound_speed |-> dVel]

(* dimension vectors of the constructor parameters of a family; p = the parameter record (exact rationals), g = geometry *)
DimPar(f, p, g) ==
  LET k == <<g - 1, 1>> IN
  CASE f = "Noh"   -> [rho0 |-> dRho, u0 |-> dVel, gamma |-> None0, geometry |-> None0]
    [] f = "Noh2"  -> [rho0 |-> dRho, e0 |-> dSie, gamma |-> None0, geometry |-> None0]
    [] f = "Sedov" -> [rho0 |-> <<Q1, QAdd(<<-3, 1>>, p.omega), Q0, Q0>>,           \* rho = rho0 r^-omega
                       eblast |-> <<Q1, <<g - 1, 1>>, <<-2, 1>>, Q0>>,              \* energy per unit area / length / total
                       gamma |-> None0, omega |-> None0, geometry |-> None0]
    [] f \in {"RiemannIG", "RiemannGen"} -> [rl |-> dRho, rr |-> dRho, pl |-> dPrs, pr |-> dPrs, ul |-> dVel, ur |-> dVel,
                           gl |-> None0, gr |-> None0, xd0 |-> Len_, xmin |-> Len_, xmax |-> Len_]
    [] f = "Cog1"  -> [rho0 |-> <<Q1, QSub(<<-3, 1>>, p.b), QAdd(p.b, QAdd(k, Q1)), Q0>>,
                       temp0 |-> <<Q0, p.b, QNeg(QSub(p.b, QMul(QSub(p.gamma, Q1), QAdd(k, Q1)))), Q1>>,
                       Gamma |-> <<Q0, <<2, 1>>, <<-2, 1>>, <<-1, 1>>>>, b |-> None0, gamma |-> None0, geometry |-> None0]
    [] f = "Cog2"  -> [rho0 |-> <<Q1, QSub(<<-3, 1>>, p.b), QDiv(QMul(<<2, 1>>, QAdd(p.b, QAdd(k, Q1))), QAdd(<<2, 1>>, QMul(QSub(p.gamma, Q1), QAdd(k, Q1)))), Q0>>,
                       Gamma |-> dGam, b |-> None0, gamma |-> None0, geometry |-> None0]
    [] f \in {"Cog4", "Cog12"} ->                                       \* rho0 r^(-2k/(gamma+1)), u0 r^(-k(gamma-1)/(gamma+1))
                      [rho0 |-> <<Q1, QAdd(<<-3, 1>>, QDiv(QMul(<<2, 1>>, k), QAdd(p.gamma, Q1))), Q0, Q0>>,
                       u0 |-> <<Q0, QAdd(Q1, QDiv(QMul(k, QSub(p.gamma, Q1)), QAdd(p.gamma, Q1))), <<-1, 1>>, Q0>>,
                       Gamma |-> dGam, gamma |-> None0, beta |-> None0, geometry |-> None0]
    [] f = "Cog5"  -> [rho0 |-> DN(1, -1, 0), u0 |-> DN(0, 1, -2), Gamma |-> dGam]
    [] f = "Cog6"  -> [rho0 |-> <<Q1, QSub(<<-3, 1>>, p.b), QAdd(QAdd(k, Q1), p.b), Q0>>, tau |-> dTim, Gamma |-> dGam, b |-> None0, geometry |-> None0]
    [] f = "Cog9"  -> LET e1 == QDiv(QAdd(QMul(<<2, 1>>, p.beta), QAdd(k, <<7, 1>>)), p.alpha)                      \* rho ~ r^-e1 t^-e2
                          e2 == QDiv(QMul(<<2, 1>>, QSub(QMul(p.alpha, QAdd(k, Q1)), QAdd(QMul(<<2, 1>>, p.beta), QAdd(k, <<7, 1>>)))),
                                     QMul(p.alpha, QAdd(<<2, 1>>, QMul(QSub(p.gamma, Q1), QAdd(k, Q1)))))
                      IN [rho0 |-> <<Q1, QAdd(<<-3, 1>>, e1), e2, Q0>>, Gamma |-> dGam, alpha |-> None0, beta |-> None0, gamma |-> None0, geometry |-> None0]
    [] f = "Cog11" -> LET m == QMul(QSub(p.gamma, Q1), QAdd(k, Q1)) IN       \* rho0 r^(m-2) t^(1-k-m), T0 r^(2-m) t^-2
                      [rho0 |-> <<Q1, QSub(<<-3, 1>>, QSub(m, <<2, 1>>)), QNeg(QSub(QSub(Q1, k), m)), Q0>>,
                       temp0 |-> <<Q0, QNeg(QSub(<<2, 1>>, m)), <<2, 1>>, Q1>>, Gamma |-> dGam, beta |-> None0, gamma |-> None0, geometry |-> None0]
    [] f = "Cog18" -> LET e1 == QDiv(QAdd(QMul(<<2, 1>>, p.beta), QAdd(k, <<7, 1>>)), p.alpha)
                          pw == QAdd(QDiv(QNeg(QAdd(k, Q1)), <<2, 1>>), QDiv(e1, <<2, 1>>))                            \* (tau^2 - t^2)^pw
                      IN [rho0 |-> <<Q1, QAdd(<<-3, 1>>, e1), QMul(<<-2, 1>>, pw), Q0>>, tau |-> dTim, Gamma |-> dGam,
                          alpha |-> None0, beta |-> None0, geometry |-> None0]
    [] f = "Cog19" -> [rho0 |-> dRho, u0 |-> dVel, Gamma |-> dGam, gamma |-> None0, geometry |-> None0]
    [] f = "Cog20" -> [rho0 |-> dRho, u0 |-> dVel, a |-> DN(0, 0, -1), Gamma |-> dGam, gamma |-> None0, geometry |-> None0]
    [] f = "Cog21" -> [rho0 |-> DN(1, 0, 0), temp0 |-> <<Q0, <<-3, 1>>, Q0, Q1>>, Gamma |-> dGam]
    [] f = "Cog8"  -> LET c1 == QDiv(QSub(k, Q1), QAdd(QSub(p.beta, p.alpha), <<4, 1>>))
                          c2 == QAdd(QAdd(k, Q1), c1)
                          c3 == QAdd(QMul(QSub(Q1, p.gamma), QAdd(k, Q1)), c1)
                      IN [rho0 |-> <<Q1, QSub(<<-3, 1>>, c1), c2, Q0>>, temp0 |-> <<Q0, c1, QNeg(c3), Q1>>,
                          Gamma |-> <<Q0, <<2, 1>>, <<-2, 1>>, <<-1, 1>>>>, alpha |-> None0, beta |-> None0, gamma |-> None0, geometry |-> None0]
    [] f = "EHEP"  -> [D |-> dVel, up |-> dVel, rho_0 |-> dRho, xtilde |-> Len_, xmax |-> Len_, tmax |-> dTim]
    [] f = "Mader" -> [p_cj |-> dPrs, d_cj |-> dVel, u_piston |-> dVel, gamma |-> None0]
    [] f = "EPpiston" -> [G |-> dPrs, Y |-> dPrs, rho0 |-> dRho, up |-> dVel, c0 |-> dVel, s0 |-> None0, gamma |-> None0]
    [] f = "Kenamond1" -> [D |-> dVel, x_d |-> Len_, t_d |-> dTim]
    [] f = "Kenamond2" -> [R |-> Len_, D1 |-> dVel, D2 |-> dVel, dets |-> Len_, t_d |-> dTim, tshift |-> dTim]
    [] f = "Kenamond3" -> [R |-> Len_, D |-> dVel, x_d |-> Len_, t_d |-> dTim]
    [] f = "DSDcyl" -> [r_1 |-> Len_, r_2 |-> Len_, D_CJ_1 |-> dVel, D_CJ_2 |-> dVel,
                        alpha_1 |-> DN(0, 2, -1), alpha_2 |-> DN(0, 2, -1), t_d |-> dTim]
    [] f = "Blake"  -> [ref_density |-> dRho, cavity_radius |-> Len_, pressure_scale |-> dPrs, lame_mod |-> dPrs, shear_mod |-> dPrs]
    [] f = "Rod1D"  -> [kappa |-> DN(0, 2, -1), L |-> Len_, TL |-> dTmp, TR |-> dTmp,
                        alpha1 |-> None0, alpha2 |-> None0, beta1 |-> None0, beta2 |-> None0,      \* homogeneous conditions: the coefficients only select the condition
                        gamma1 |-> dTmp, gamma2 |-> dTmp]
    [] f = "Guderley" -> [rho0 |-> dRho, gamma |-> None0, geometry |-> None0]
    [] f = "Hutchens1" -> [k |-> <<Q1, Q1, <<-3, 1>>, <<-1, 1>>>>, cp |-> <<Q0, <<2, 1>>, <<-2, 1>>, <<-1, 1>>>>,
                           rho |-> dRho, Tb |-> dTmp, T0 |-> dTmp, b |-> Len_]

(* Coggeshall problems whose formulas contain no built-in radiation constants (and no parameter that is at once an exponent and a rate) *)
CogUnits == {"Cog1", "Cog2", "Cog4", "Cog5", "Cog6", "Cog8", "Cog9", "Cog11", "Cog12", "Cog18", "Cog19", "Cog20", "Cog21"}
(* dimension vectors of the returned fields *)
DimField(f) ==
  CASE f \in {"Noh", "Noh2", "Sedov", "RiemannIG", "RiemannGen", "EHEP", "Mader", "Guderley"} -> HydroFields @@ [xdet |-> Len_]
    [] f \in CogUnits -> HydroFields @@ [temperature |-> dTmp]
    [] f = "EPpiston" -> HydroFields @@ [deviatoric_stress |-> dPrs]
    [] f \in {"Kenamond1", "Kenamond2", "Kenamond3", "DSDcyl"} -> [burntime |-> dTim]
    [] f = "Blake" -> [curr_posn |-> Len_, displacement |-> Len_, strain_rr |-> None0, strain_qq |-> None0, strain_vol |-> None0,
                       density |-> dRho, stress_rr |-> dPrs, stress_qq |-> dPrs, pressure |-> dPrs,
                       stress_dev_rr |-> dPrs, stress_dev_qq |-> dPrs, stress_diff |-> dPrs]
    [] f \in {"Rod1D", "Hutchens1"} -> [temperature |-> dTmp]

(* which units may be rescaled independently for a family *)
Group(f) ==
  CASE f = "Noh2" -> {"M", "L"}                       \* u(r,0) = -r fixes the unit of time
    [] f \in {"Kenamond1", "Kenamond2", "Kenamond3", "DSDcyl"} -> {"L", "T"}
    [] f \in CogUnits \cup {"Hutchens1"} -> {"M", "L", "T", "K"}
    [] f = "Rod1D" -> {"L", "T", "K"}
    [] f = "Guderley" -> {"M"}                          \* r_shock = (-t_L)^(1/lambda) carries a dimensional constant 1: only the unit of mass is free
    [] OTHER -> {"M", "L", "T"}

(* factor by which a quantity of dimension d changes: prod scale_i ^ d_i  (SL arithmetic) *)
Factor(d, sc) == ProdPow(<< <<sc.M, d[1]>>, <<sc.L, d[2]>>, <<sc.T, d[3]>>, <<sc.K, d[4]>> >>)

(* SameF: equal within tol, or both negligible against the field's floor *)
Below(a, fl)        == a.s = 0 \/ a.l <= fl.l
SameF(a, b, tol, fl) == Same(a, b, tol) \/ (Below(a, fl) /\ Below(b, fl))

(* ---- C08: unit scaling ------------------------------------------------ *)
UnitClauses(e, tol) ==
  UNION { Chk("UNIT." \o n, SameF(e.b[n], Mul(e.a[n], Factor(DimField(e.fam)[n], e.scale)), tol,
                                  Mul(e.fl[n], Factor(DimField(e.fam)[n], e.scale)))) : n \in DOMAIN e.a }
(* ---- C07: routes ------------------------------------------------------ *)
RouteClauses(e, tol) == UNION { Chk("ROUTE." \o n, SameF(e.a[n], e.b[n], tol, e.fl[n])) : n \in DOMAIN e.a }
(* ---- C09: mirror (velocity changes sign), rigid motion of burn-time problems -------- *)
Parity == [density |-> 1, pressure |-> 1, specific_internal_energy |-> 1, velocity |-> -1, burntime |-> 1]
MirrorClauses(e, tol) ==
  UNION { Chk("SYM.mirror." \o n, SameF(e.b[n], IF Parity[n] = 1 THEN e.a[n] ELSE Neg(e.a[n]), tol, e.fl[n])) : n \in DOMAIN e.a }
RigidClauses(e, tol) == UNION { Chk("SYM.rigid." \o n, SameF(e.a[n], e.b[n], tol, e.fl[n])) : n \in DOMAIN e.a }
(* boost: thermodynamic fields unchanged, velocity shifted (additive: a balance) *)
BoostClauses(e, tol, btol) ==
  UNION { Chk("SYM.boost." \o n, SameF(e.a[n], e.b[n], tol, e.fl[n])) : n \in DOMAIN e.a }
  \cup Chk("SYM.boost.velocity", Balanced(e.ubal, btol))
(* ---- C10: similarity: b = a * (t2/t1)^exponent, exponents from the documented similarity map *)
(* j = geometry (1,2,3), w = omega *)
SedovExp(j, w) ==
  LET den == QSub(<<j + 2, 1>>, w)
      ur  == QSub(QDiv(<<2, 1>>, den), Q1)                    \* r_s / t  ~ t^(2/(j+2-w) - 1)
      rh  == QDiv(QMul(<<-2, 1>>, w), den)                    \* rho ~ t^(-2 w /(j+2-w))
  IN [density |-> rh, velocity |-> ur, pressure |-> QAdd(rh, QMul(<<2, 1>>, ur)),
      specific_internal_energy |-> QMul(<<2, 1>>, ur), sound_speed |-> ur, rshock |-> QDiv(<<2, 1>>, den)]
SimExp(fam, j, w) ==
  CASE fam = "Sedov" -> SedovExp(j, w)
    [] OTHER -> [density |-> Q0, velocity |-> Q0, pressure |-> Q0, specific_internal_energy |-> Q0,
                 sound_speed |-> Q0, temperature |-> Q0, rshock |-> Q1]      \* x/t similarity: fields unchanged, positions ~ t
(* Guderley: x = t_L / r^lambda is kept fixed by the pair (r, t_L) -> (a r, q t_L), q = a^lambda (lambda read off the solver's shock *)
(* trajectory by the harness); the documented prefactors then give: density unchanged, velocities x a/q, pressure, energy x (a/q)^2  *)
GudFactor(e) == [density |-> SLOne, velocity |-> Div(e.lratio, e.tratio), sound_speed |-> Div(e.lratio, e.tratio),
                 pressure |-> Sq(Div(e.lratio, e.tratio)), specific_internal_energy |-> Sq(Div(e.lratio, e.tratio))]
SimilarClauses(e, tol) ==
  IF e.fam = "Guderley"
  THEN UNION { Chk("SIM." \o n, SameF(e.b[n], Mul(e.a[n], GudFactor(e)[n]), tol, Mul(e.fl[n], GudFactor(e)[n]))) : n \in DOMAIN e.a }
  ELSE
  UNION { Chk("SIM." \o n, SameF(e.b[n], Mul(e.a[n], PowQ(e.tratio, SimExp(e.fam, e.geometry, e.omega)[n])), tol,
                                 Mul(e.fl[n], PowQ(e.tratio, SimExp(e.fam, e.geometry, e.omega)[n])))) : n \in DOMAIN e.a }

RelTol == [closed |-> 20, root |-> 200, ode |-> 2000, series |-> 200, table |-> 20000, sedov |-> 20000, ehep |-> 20, geos |-> 20000]
RelClauses(e) ==
  LET t == RelTol[e.res] IN
  CASE e.rel = "Unit"    -> UnitClauses(e, 50)      \* the same algorithm on rescaled inputs: round-off only, whatever the resolution class
    [] e.rel = "Route"   -> RouteClauses(e, t)
    [] e.rel = "Mirror"  -> MirrorClauses(e, t)
    [] e.rel = "Rigid"   -> RigidClauses(e, t)
    [] e.rel = "Boost"   -> BoostClauses(e, t, 100 * t)
    [] e.rel = "Similar" -> SimilarClauses(e, 200)  \* same algorithm at the image point: grids scale with the request
=========================================================================
