SPECIFICATION Spec
CONSTANTS
  Classes <- MCClasses
  Kind <- MCKind
  Module <- MCModule
  Cfgs = {1, 2}
  Objs = {1, 2}
  Variants = {"full"}
  Tols = {1, 2}
  MaxOps = 6
  SharedSolver = FALSE
INVARIANT TypeOK
INVARIANT HistoryIndependent
CHECK_DEADLOCK FALSE
