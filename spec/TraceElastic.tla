-------------------------- MODULE TraceElastic --------------------------
(* Conformance of Blake's elastic-parameter handling with Exact_Elastic.  *)
(* One event per (material, pair): the pair handed to the constructor,    *)
(* the outcome, the six parameters the solver ended up with, the model's  *)
(* six, and the isotropic identities as term vectors of the solver's six. *)
EXTENDS Relations, Json, IOUtils
TLog == JsonDeserialize(IOEnv.TRACE_FILE)
VARIABLE l
Ev == TLog[l]
Report(e, cs) == IF cs = {} THEN TRUE ELSE PrintT(ToJson([tid |-> e.tid, i |-> l, failed |-> cs]))
Clauses(e) ==
       (IF e.outcome \notin {"ok", "ValueError"} THEN {"ELAS.construction-raised-" \o e.outcome} ELSE {})
  \cup (IF ~e.pd /\ e.outcome = "ok" THEN {"ELAS.non-positive-definite-material-accepted"} ELSE {})
  \cup (IF e.pd /\ e.outcome = "ok"
        THEN  Chk("ELAS.reproduces." \o e.first,  SameF(e.got[e.first],  e.v1, 5, e.fl))
         \cup Chk("ELAS.reproduces." \o e.second, SameF(e.got[e.second], e.v2, 5, e.fl))
         \cup UNION { Chk("ELAS.identity." \o n, Balanced(e.ids[n], 100)) : n \in DOMAIN e.ids }
         \cup (IF e.twovalued THEN {}
               ELSE UNION { Chk("ELAS.six." \o n, SameF(e.got[n], e.model[n], 5, e.fl)) : n \in DOMAIN e.model })
        ELSE {})
Init == l = 1
Next == l <= Len(TLog) /\ Report(Ev, Clauses(Ev)) /\ l' = l + 1
Spec == Init /\ [][Next]_l
Accepted == TLCGet("stats").diameter - 1 = Len(TLog)
=========================================================================
