-------------------------- MODULE TraceSession --------------------------
(* Trace validation of recorded API sessions against Session.  Each      *)
(* event is one operation performed on the real library together with    *)
(* the observed, abstracted reply.  The event must be an enabled action   *)
(* of Session (a Call on an object that was never constructed, a Dump     *)
(* without a solution ... is a structural rejection); the reply is        *)
(* compared with the contract and the violated clauses are printed.       *)
EXTENDS Session, Json, IOUtils

Log == JsonDeserialize(IOEnv.TRACE_FILE)

VARIABLE l
tvars == <<objs, solved, hist, l>>

Ev == Log[l]
IsOp(k) == l <= Len(Log) /\ Ev.op = k

Report(e, cs) == IF cs = {} THEN TRUE
                 ELSE PrintT(ToJson([tid |-> e.tid, i |-> l, failed |-> cs]))

TInit == Init /\ l = 1

TConstruct ==
  /\ IsOp("Construct") /\ (Ev.outcome = "ok" => Ev.obj \notin DOMAIN objs)
  /\ Report(Ev, ConstructClauses(Ev, Ev.mode))
  /\ IF Ev.outcome = "ok"
     THEN Construct(Ev.obj, Ev.cls, "ok")            \* the object exists, whatever was expected
     ELSE (objs' = objs /\ solved' = solved /\ hist' = Append(hist, [op |-> "Construct", obj |-> Ev.obj, cls |-> Ev.cls, mode |-> "refused"]))   \* no object
  /\ l' = l + 1

TCall ==
  /\ IsOp("Call")
  /\ Report(Ev, CallClauses(Ev, Ev.n))
  /\ Call(Ev.obj, Ev.container, Ev.n, Ev.order)
  /\ l' = l + 1

TDump ==
  /\ IsOp("Dump")
  /\ Report(Ev, DumpClauses(Ev))
  /\ Dump(Ev.obj)
  /\ l' = l + 1

(* end of one replayed behaviour: a new interpreter state *)
TReset ==
  /\ IsOp("Reset")
  /\ objs' = <<>> /\ solved' = {} /\ hist' = <<>> /\ l' = l + 1

TNext == TConstruct \/ TCall \/ TDump \/ TReset
TSpec == TInit /\ [][TNext]_tvars

Accepted == TLCGet("stats").diameter - 1 = Len(Log)
=========================================================================
