------------------------------ MODULE Interp ------------------------------
(* An implementation-shaped model of where ExactPack keeps state between   *)
(* operations (property C06).  Every solver is meant to be a pure function *)
(* (parameters, point, time) -> value, but the code keeps state in         *)
(*   module-level globals written at the start of an evaluation and read   *)
(*     by ODE right-hand sides / integrands        (kind "glob": Guderley, *)
(*     RMTV, Su-Olson),                                                    *)
(*   attributes overwritten on the solver object by every call             *)
(*                                  (kind "attr": Riemann, Sedov, 2-D R.), *)
(*   a profile computed once by the constructor    (kind "eager":          *)
(*                                                  radiative shocks),     *)
(*   a cached Newton solution, a Newton-solver object with a tolerance,    *)
(*     and an initial-conditions dictionary        (kind "bbox": black-box *)
(*                                                  Noh),                  *)
(*   nothing                                       (kind "pure").          *)
(* The model records, for every Call, the tuple of state the evaluation    *)
(* READS; HistoryIndependent says that tuple is the calling object's own   *)
(* configuration.  TLC explores every interleaving of Construct / Call /   *)
(* SetTol / Solve over a few objects; the same behaviours are replayed in  *)
(* a real interpreter and every returned value is compared with the value  *)
(* the same call gives first in a fresh interpreter (the verdict is taken  *)
(* from that observation only, never from the model's internals).          *)
EXTENDS Integers, Sequences, FiniteSets, TLC

CONSTANTS Classes,    \* concrete class names taking part
          Kind,       \* [Classes -> {"pure","glob","attr","eager","bbox"}]
          Module,     \* [Classes -> module name]   (globals are per module)
          Cfgs,       \* configuration ids per class, e.g. {1, 2}
          Objs,       \* object ids
          Variants,   \* request variants: "full","perm","subset","superset","dup"
          Tols,       \* black-box Noh tolerances (ids)
          MaxOps,
          SharedSolver   \* TRUE models the code before the fix (one Newton solver / dictionary for all)

None == [none |-> TRUE]

VARIABLES objs,     \* o -> [cls, cfg, attr, cache, tol, dict]
          glob,     \* module -> configuration last written to its globals (or None)
          shtol,    \* tolerance of the class-level Newton solver (SharedSolver only)
          dicts,    \* dictionary id -> symmetry written into it (bbox wrappers)
          read,     \* what the last Call read: [cfg, tol] (or None)
          hist
vars == <<objs, glob, shtol, dicts, read, hist>>

Cfg(c, k) == <<c, k>>                      \* a configuration is (class, parameter-set id)

Init == /\ objs = <<>> /\ glob = [m \in {Module[c] : c \in Classes} |-> None]
        /\ shtol = 1 /\ dicts = <<>> /\ read = None /\ hist = <<>>

Log(e) == hist' = Append(hist, e)

(* Construct: bbox objects take an initial-conditions dictionary d; before the fix the  *)
(* object keeps a reference to d and the wrapper writes its symmetry into d             *)
Construct(o, c, k, d) ==
  /\ o \notin DOMAIN objs
  /\ objs' = objs @@ (o :> [cls |-> c, cfg |-> Cfg(c, k), attr |-> None, cache |-> None,
                            tol |-> 1, dict |-> IF SharedSolver THEN d ELSE o])
  /\ dicts' = IF Kind[c] = "bbox"
              THEN [x \in DOMAIN dicts \cup {IF SharedSolver THEN d ELSE o} |->
                       IF x = (IF SharedSolver THEN d ELSE o) THEN Cfg(c, k) ELSE dicts[x]]
              ELSE dicts
  /\ Log([op |-> "Construct", obj |-> o, cls |-> c, cfg |-> k, dict |-> d])
  /\ UNCHANGED <<glob, shtol, read>>

SetTol(o, t) ==
  /\ o \in DOMAIN objs /\ Kind[objs[o].cls] = "bbox"
  /\ objs' = [objs EXCEPT ![o].tol = t]
  /\ shtol' = IF SharedSolver THEN t ELSE shtol
  /\ Log([op |-> "SetTol", obj |-> o, tol |-> t])
  /\ UNCHANGED <<glob, dicts, read>>

(* Solve: reads the dictionary the object refers to and the solver's tolerance *)
SolvedWith(o) == [cfg |-> dicts[objs[o].dict], tol |-> IF SharedSolver THEN shtol ELSE objs[o].tol]
Solve(o) ==
  /\ o \in DOMAIN objs /\ Kind[objs[o].cls] = "bbox"
  /\ objs' = [objs EXCEPT ![o].cache = SolvedWith(o)]
  /\ Log([op |-> "Solve", obj |-> o])
  /\ UNCHANGED <<glob, shtol, dicts, read>>

Call(o, v, ti) ==
  /\ o \in DOMAIN objs
  /\ LET c == objs[o].cls  k == Kind[c] IN
     /\ CASE k = "glob"  -> /\ glob' = [glob EXCEPT ![Module[c]] = objs[o].cfg]      \* written first ...
                            /\ read' = [cfg |-> objs[o].cfg, tol |-> 0]              \* ... then read
                            /\ UNCHANGED objs
          [] k = "attr"  -> /\ objs' = [objs EXCEPT ![o].attr = objs[o].cfg]         \* attributes overwritten, then read
                            /\ read' = [cfg |-> objs[o].cfg, tol |-> 0]
                            /\ UNCHANGED glob
          [] k = "bbox"  -> /\ objs' = [objs EXCEPT ![o].cache = IF objs[o].cache = None THEN SolvedWith(o) ELSE objs[o].cache]
                            /\ read' = objs'[o].cache
                            /\ UNCHANGED glob
          [] OTHER       -> /\ read' = [cfg |-> objs[o].cfg, tol |-> 0] /\ UNCHANGED <<objs, glob>>
  /\ Log([op |-> "Call", obj |-> o, variant |-> v, t |-> ti])
  /\ UNCHANGED <<shtol, dicts>>

(* Query: a public helper method of the solver object that only computes (EPpiston.Plastic_Residual, ...): *)
(* reads the object's configuration, writes nothing                                                        *)
Query(o, q) ==
  /\ o \in DOMAIN objs
  /\ Log([op |-> "Query", obj |-> o, q |-> q])
  /\ UNCHANGED <<objs, glob, shtol, dicts, read>>

Next == /\ Len(hist) < MaxOps
        /\ \/ \E o \in Objs, c \in Classes, k \in Cfgs, d \in Objs : Construct(o, c, k, d)
           \/ \E o \in Objs, t \in Tols : SetTol(o, t)
           \/ \E o \in Objs : Solve(o)
           \/ \E o \in Objs, q \in {1, 2} : Query(o, q)
           \/ \E o \in Objs, v \in Variants, ti \in {1, 2} : Call(o, v, ti)
Spec == Init /\ [][Next]_vars

(* the last operation *)
LastOp == IF hist = <<>> THEN None ELSE hist[Len(hist)]

(* A call reads the configuration of the object it was made on.  For the black-box *)
(* solver the tolerance in force is the object's own (a tolerance is part of what   *)
(* the user configured on that object).                                             *)
HistoryIndependent ==
  (LastOp # None /\ LastOp.op = "Call") =>
     LET o == LastOp.obj IN
       /\ read.cfg = objs[o].cfg
       /\ (Kind[objs[o].cls] = "bbox" => read.tol = objs[o].tol \/ objs[o].cache # SolvedWith(o))

TypeOK == DOMAIN objs \subseteq Objs
===========================================================================
