----------------------------- MODULE Session -----------------------------
(* The ExactPack API contract as a state machine (property C05, and the  *)
(* construction half of C20).  A session is a finite sequence of          *)
(*   Construct(o, cls, mode)   mode: ok | unknown (parameter name that    *)
(*                             does not exist) | missing (no value for a  *)
(*                             parameter that has no default)             *)
(*   Call(o, container, n, order)                                         *)
(*   Dump(o)  (write the last solution of o to CSV and read it back)      *)
(* Each action has an expected, abstract reply (the Expect operators): what      *)
(* trace validation compares the implementation's observed reply with.    *)
EXTENDS Integers, Sequences, FiniteSets, TLC

CONSTANTS Classes,      \* class names
          Objs,         \* object identifiers
          Containers,   \* {"list", "tuple", "ndarray"}
          Ns,           \* request sizes
          Orders,       \* {"sorted", "reversed", "shuffled", "dup"}
          MaxOps        \* bound on the length of generated behaviours

Modes == {"ok", "ok2", "unknown", "unknown2", "missing", "unpublished"}
(* ok2: a second, non-default but valid parameter set; unknown2: an unknown name next  *)
(* to that second parameter set (constructors that pre-process their keywords);        *)
(* unpublished: a parameter that a parent class publishes but this class (e.g. a       *)
(* geometry wrapper) does not                                                          *)
IsOk(mode) == mode \in {"ok", "ok2"}

(* Documented standard field names (ExactSolution docstring table) and    *)
(* names that denote a quantity of that table without being the standard  *)
(* name (a solver using one of them breaks the naming convention).        *)
StdNames == {"density", "pressure", "specific_internal_energy", "velocity",
             "position", "position_x", "position_y", "position_z"}
PosNames == {"position", "position_x", "position_y", "position_z"}
NonStd   == {"radius", "x_position", "y_position", "z_position", "x", "y", "z", "r",
             "energy", "internal_energy", "sie", "rho", "vel", "press", "p", "u", "e"}

VARIABLES objs,    \* [constructed object id -> class]
          solved,  \* set of objects holding a last solution
          hist     \* operations so far (generation only; hidden by VIEW in exhaustive runs)
vars == <<objs, solved, hist>>

Init == objs = <<>> /\ solved = {} /\ hist = <<>>

ExpectConstruct(mode) == IF IsOk(mode) THEN "ok" ELSE "ValueError"

Construct(o, c, mode) ==
  /\ o \notin DOMAIN objs
  /\ objs' = IF IsOk(mode) THEN objs @@ (o :> c) ELSE objs
  /\ hist' = Append(hist, [op |-> "Construct", obj |-> o, cls |-> c, mode |-> mode])
  /\ UNCHANGED solved

Call(o, cont, n, ord) ==
  /\ o \in DOMAIN objs
  /\ solved' = solved \cup {o}
  /\ hist' = Append(hist, [op |-> "Call", obj |-> o, container |-> cont, n |-> n, order |-> ord])
  /\ UNCHANGED objs

Dump(o) ==
  /\ o \in solved
  /\ hist' = Append(hist, [op |-> "Dump", obj |-> o])
  /\ UNCHANGED <<objs, solved>>

Next == /\ Len(hist) < MaxOps
        /\ \/ \E o \in Objs, c \in Classes, m \in Modes : Construct(o, c, m)
           \/ \E o \in Objs, cont \in Containers, n \in Ns, ord \in Orders : Call(o, cont, n, ord)
           \/ \E o \in Objs : Dump(o)
Spec == Init /\ [][Next]_vars

(* ------------------------- contract (reply clauses) --------------------- *)
(* r is the observed reply record of a Call; the set of violated clauses   *)
CallClauses(r, n) ==
       (IF r.outcome = "ok" \/ ("lenient" \in DOMAIN r /\ r.lenient) THEN {} ELSE {"API.call-raised"})   \* lenient: an observed call may be an intended invalid request
  \cup (IF r.outcome # "ok" THEN {}
        ELSE  (IF r.len = n THEN {} ELSE {"API.record-count"})
         \cup (IF r.echo THEN {} ELSE {"API.positions-echoed-in-order"})
         \cup (IF r.pos_first THEN {} ELSE {"API.positions-first"})
         \cup (IF {r.names[i] : i \in 1..Len(r.names)} \cap NonStd = {} THEN {} ELSE {"API.standard-names"})
         \cup (IF r.input_unchanged THEN {} ELSE {"API.input-modified"})
         \cup (IF r.same_as_array THEN {} ELSE {"API.container-equivalence"}))
(* mode "observed": a construction recorded from somebody else's program (the repository's tests): whatever was  *)
(* intended, a construction either succeeds or is refused with the documented ValueError                          *)
ConstructClauses(r, mode) ==
  IF mode = "observed"
  THEN (IF r.outcome \in {"ok", "ValueError"} THEN {} ELSE {"API.construct-refused-with-" \o r.outcome})
  ELSE IF r.outcome = ExpectConstruct(mode) THEN {} ELSE {"API.construct." \o mode}
DumpClauses(r) ==
  IF r.outcome = "ok" /\ r.csv_exact /\ r.csv_rows THEN {} ELSE {"API.csv-roundtrip"}

(* invariants of the model itself *)
TypeOK == /\ DOMAIN objs \subseteq Objs /\ solved \subseteq DOMAIN objs
OnlyBuiltObjectsAreCalled ==
  \A i \in 1..Len(hist) : hist[i].op = "Call" =>
      \E j \in 1..(i - 1) : hist[j].op = "Construct" /\ hist[j].obj = hist[i].obj /\ IsOk(hist[j].mode)
=========================================================================
