----------------------------- MODULE Laws -----------------------------
(* Law predicates over measured events.  An event is a record produced  *)
(* by the Python projection; every numeric operand is an SL number or an*)
(* E8 term vector (see Numbers).  A law never disables a step: it yields*)
(* the set of failed clause names (total verdicts).                     *)
EXTENDS Numbers

Chk(name, cond) == IF cond THEN {} ELSE {name}

(* union of a function's range of sets *)
UnionOver(S, F(_)) == UNION {F(x) : x \in S}

Has(r, f) == f \in DOMAIN r

(* ---- tolerances per resolution class ------------------------------- *)
(* sl: micro-nepers (1e-6 relative); bal: units of 1e-8 of the scale     *)
(* int: integral budgets.  Calibration (DESIGN.md section 7): >= 10 x the worst residual seen on   *)
(* the thorough campaign of the unchanged tree, <= 1/10 of the smallest seeded-mutant effect.     *)
(* field: the term-vector laws of Catalogue.FieldLaws.  Worst residuals seen on the unchanged tree (units 1e-8):   *)
(* burn times / Blake <= 1; heat series (Nsum 200-400) <= 1; radiative-shock fluxes 0; Su-Olson 3e4 (the solver's   *)
(* own 1e-6 quadrature tolerance through a second difference); reaction zone 4e3 (201-point table).                  *)
Tol == [ closed   |-> [sl |-> 5,     bal |-> 100,     jump |-> 200,     int |-> 200,     field |-> 2000],
         root     |-> [sl |-> 50,    bal |-> 20000,   jump |-> 20000,   int |-> 20000,   field |-> 400000],
         ode      |-> [sl |-> 200,   bal |-> 100000,  jump |-> 100000,  int |-> 100000,  field |-> 20000],
         series   |-> [sl |-> 200,   bal |-> 100000,  jump |-> 100000,  int |-> 100000,  field |-> 20000],
         table    |-> [sl |-> 2000,  bal |-> 2000000, jump |-> 2000000, int |-> 2000000, field |-> 100000],
         (* Sedov observed on its own exact nodes: differences on the node spacing (worst 3e-3), *)
         (* node-exact shock states (3e-7), Simpson on 3001 nodes (energy 3e-7, mass 5e-5)       *)
         (* EHEP: closed forms, but the solver assigns points within ~1e-6 of a region boundary to the first region *)
         (* it tests (point_on_line tolerance): located fronts carry that fuzz                                    *)
         ehep     |-> [sl |-> 5,     bal |-> 100,     jump |-> 2000,    int |-> 2000,    field |-> 2000],
         (* general-EOS Riemann solver, 2001-point tables: shocks smeared over one cell, fans from an ODE table *)
         geos     |-> [sl |-> 2000,  bal |-> 500000,  jump |-> 500000,  int |-> 500000,  field |-> 500000],
         (* RMTV: one ODE integration per point (rtol 4e-10); differences of those: mass / momentum 2e-7, energy with the  *)
         (* conduction term (a second difference) 1.3e-5; isothermal shock 5e-9                                        *)
         rmtv     |-> [sl |-> 20,    bal |-> 20000,   jump |-> 1000,    int |-> 100000,  field |-> 20000],
         sedov    |-> [sl |-> 20,    bal |-> 3000000, jump |-> 1000,    int |-> 50000,   field |-> 100000] ]

(* ---- equation of state (C03) --------------------------------------- *)
(* kind "gamma": p = (gamma-1) rho e ; optional sound speed c^2 = gamma p / rho *)
EosGamma(par, v, t) ==
       Chk("EOS.p=(g-1)rho.e", Same(v.p, Mul(par.gm1, Mul(v.rho, v.e)), t))
  \cup (IF Has(v, "c")
        THEN Chk("EOS.c2=g.p/rho", v.rho.s = 0 \/ Same(Sq(v.c), Div(Mul(par.gamma, v.p), v.rho), 2 * t))
        ELSE {})
(* kind "cog": p = Gamma rho T ; e = Gamma T / (gamma-1)  (Coggeshall, RMTV) *)
EosCog(par, v, t) ==
       Chk("EOS.p=G.rho.T", Same(v.p, Mul(par.Gam, Mul(v.rho, v.T)), t))
  \cup Chk("EOS.e=G.T/(g-1)", Same(v.e, Div(Mul(par.Gam, v.T), par.gm1), t))
  \cup Chk("EOS.p=(g-1)rho.e", Same(v.p, Mul(par.gm1, Mul(v.rho, v.e)), t))
(* kind "additive": the EOS has an additive form (JWL, Mie-Gruneisen, stiffened,  *)
(* Noble-Abel ...): the projection supplies the terms {p, -f1, -f2, ...}           *)
EosAdditive(bal, t) == Chk("EOS.additive", Balanced(bal.eos, t))

(* ---- positivity / admissibility on a point (C17) ------------------- *)
NonNeg(v, f)  == (~Has(v, f)) \/ v[f].s >= 0
AdmPoint(v, vac) ==
       Chk("ADM.rho>0",  IF vac THEN v.rho.s >= 0 ELSE v.rho.s = 1)
  \cup Chk("ADM.p>=0",   NonNeg(v, "p"))
  \cup Chk("ADM.e>=0",   NonNeg(v, "e"))
  \cup Chk("ADM.T>=0",   NonNeg(v, "T"))
  \cup Chk("ADM.c>=0",   NonNeg(v, "c"))

(* ---- balance laws (C01 PDE residuals, C02 flux jumps, integrals) --- *)
BalClauses(prefix, bal, names, t) ==
    UNION { Chk(prefix \o n, Balanced(bal[n], t)) : n \in names }

(* ---- jumps (C02 / C17) ---------------------------------------------*)
(* j.ahead \in {"L","R"}: the side the material comes from.              *)
Compressive(j) ==
    LET a == IF j.ahead = "L" THEN j.L ELSE j.R
        b == IF j.ahead = "L" THEN j.R ELSE j.L
    IN  SLLt(a.rho, b.rho) /\ SLLe(a.p, b.p, 0) /\ ~Same(a.p, b.p, 0)
=======================================================================
