--------------------------- MODULE RelCampaign ---------------------------
(* Campaigns for the pair relations: a configuration of Campaign crossed  *)
(* with the relation's own parameters (unit scale factors, boost          *)
(* velocities, time ratios ...), all exact rationals chosen here.         *)
EXTENDS Campaign, Relations

CONSTANT Rels      \* relations to enumerate: subset of {"Unit", "Similar", "Mirror", "Boost", "Rigid", "Route"}

(* self-similar families (C10) *)
SimFams == {"Noh", "Cog19", "RiemannIG", "Mader", "Sedov", "EHEP", "Guderley"}     \* Guderley: the ratio is the length ratio a (see Relations)
(* rigid motions of the burn-time problems (C09): exact rotations by Pythagorean angles, reflections, translations *)
Motions == {[kind |-> "rot", c |-> <<3, 5>>, s |-> <<4, 5>>], [kind |-> "rot", c |-> <<-5, 13>>, s |-> <<12, 13>>],
            [kind |-> "refl", c |-> <<1, 1>>, s |-> <<0, 1>>], [kind |-> "shift", c |-> <<7, 3>>, s |-> <<-11, 5>>]}
MotionOK(f, m) == CASE f = "Kenamond1" -> TRUE                       \* any common rotation, reflection or translation
                    [] f \in {"Kenamond3", "DSDcyl"} -> m.kind \in {"rot", "refl"}   \* about the centre of the obstacle / charge
                    [] f = "Kenamond2" -> m.kind = "refl"              \* detonators on the axis: reflection through the axis (2-D), rotation about it (3-D)
                    [] OTHER -> FALSE
(* independent routes to the same solution (C07) *)
RoutesOf(f, p) ==
  CASE f = "Noh"  -> {"Noh=Cog19", "Noh=BlackBoxNoh", "Noh=BlackBoxNoh.resolved", "wrapper"}   \* .resolved: the jump conditions solved a second time from another guess
    [] f = "Noh2" -> {"Noh2=Noh2Cog", "Noh2=Cog1", "wrapper"}
    [] f = "Sedov" -> {"wrapper"}
    [] f \in CogNone \cup CogDiv \cup CogFull \cup CogShock -> IF "geometry" \in DOMAIN p THEN {"wrapper"} ELSE {}
    [] f \in {"Rod1D", "RodNH"} -> (IF p.bc \in {"BC1", "BC2", "BC3"} THEN {"Rod=Sandwich"} ELSE {}) \cup (IF p.bc = "BC3" THEN {"RodBC3=mirrorBC4"} ELSE {})
    [] f \in {"Kenamond1", "Kenamond2", "Kenamond3"} -> IF p.geometry = 2 THEN {"2D=3D"} ELSE {}
    [] f = "RiemannIG" -> {"IGEOS=GenEOS"}
    [] OTHER -> {}

HasDims == CogUnits \cup {"Noh", "Noh2", "Sedov", "RiemannIG", "RiemannGen", "EHEP", "Mader", "EPpiston", "Kenamond1", "Kenamond2",
            "Kenamond3", "DSDcyl", "Blake", "Rod1D", "Hutchens1", "Guderley"}
Scales == {[M |-> <<2, 1>>, L |-> <<1, 3>>, T |-> <<10, 1>>, K |-> <<7, 2>>],
           [M |-> <<1000, 1>>, L |-> <<10, 1>>, T |-> <<1, 3>>, K |-> <<1, 5>>]}
Restrict(sc, grp) == [u \in {"M", "L", "T", "K"} |-> IF u \in grp THEN sc[u] ELSE <<1, 1>>]
TRatios == {<<2, 1>>, <<7, 3>>, <<1, 10>>}
Boosts  == {<<-3, 1>>, <<1, 2>>}

VARIABLE rs
rvars == <<st, rs>>
RInit == /\ Init
         /\ \E r \in Rels :
              CASE r = "Unit" -> /\ st.fam \in HasDims
                                 /\ \E sc \in Scales :
                                      rs = [rel |-> "Unit", scale |-> Restrict(sc, Group(st.fam)),
                                            dimpar |-> DimPar(st.fam, st.par, st.geometry)]
                [] r = "Similar" -> /\ st.fam \in SimFams
                                    /\ \E q \in TRatios : rs = [rel |-> "Similar", tratio |-> q,
                                          simexp |-> SimExp(st.fam, st.geometry, IF "omega" \in DOMAIN st.par THEN st.par.omega ELSE <<0, 1>>)]
                [] r = "Mirror"  -> st.fam \in RiemannFams /\ rs = [rel |-> "Mirror"]
                [] r = "Boost"   -> st.fam \in RiemannFams /\ \E u \in Boosts : rs = [rel |-> "Boost", boost |-> u]
                [] r = "Rigid"   -> \E m \in Motions : MotionOK(st.fam, m) /\ rs = [rel |-> "Rigid", motion |-> m]
                [] r = "Route"   -> \E x \in RoutesOf(st.fam, st.par) : rs = [rel |-> "Route", route |-> x]
RNext == UNCHANGED rvars
RSpec == RInit /\ [][RNext]_rvars
REmit == PrintT(ToJson([st |-> st, rs |-> rs]))
==========================================================================
