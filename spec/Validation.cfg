SPECIFICATION Spec
INVARIANT Emit
