------------------------------ MODULE TraceEos ------------------------------
(* Laws of property C16 over measured term vectors: closures are mutual      *)
(* inverses; each analytic partial derivative equals the central difference  *)
(* of its closure; Jacobian = derivative of the residual; Jacobian times     *)
(* inverse Jacobian = identity; a converged Newton solve satisfies the three *)
(* jump conditions with a positive shock speed.                              *)
EXTENDS Laws, Json, IOUtils, TLC
TLog == JsonDeserialize(IOEnv.TRACE_FILE)
VARIABLE l
Ev == TLog[l]
Report(e, cs) == IF cs = {} THEN TRUE ELSE PrintT(ToJson([tid |-> e.tid, i |-> l, failed |-> cs]))
TolEq == 2000      \* 2e-5: fourth-order central differences of smooth closures
Clauses(e) ==
  IF e.raised THEN {"EOSLIB.raised-in-domain"}
  ELSE  UNION { Chk("EOSLIB." \o n, Balanced(e.eq[n], TolEq)) : n \in DOMAIN e.eq }
   \cup (IF "speed" \in DOMAIN e THEN Chk("EOSLIB.newton.positive-shock-speed", e.speed.s = 1) ELSE {})
Init == l = 1
Next == l <= Len(TLog) /\ Report(Ev, Clauses(Ev)) /\ l' = l + 1
Spec == Init /\ [][Next]_l
Accepted == TLCGet("stats").diameter - 1 = Len(TLog)
=============================================================================
