---------------------------- MODULE Validation ----------------------------
(* The catalogue of DOCUMENTED restrictions on solver parameters and on    *)
(* the time / space domain of a request (property C20), and the probes     *)
(* that test each of them below, at and above its bound.  A restriction    *)
(* is documented in the class docstring, the parameter help or the error   *)
(* message of the solver.  TLC enumerates every probe and computes, in     *)
(* exact rationals, whether the probe value violates the restriction; the  *)
(* harness performs the construction (or the call) on the real class and   *)
(* TraceValidation compares the outcome.                                   *)
EXTENDS Numbers, TLC, Json

(* relations: the admissible set is  x rel b  *)
Holds(rel, x, b) ==
  CASE rel = ">"  -> QLt(b, x)
    [] rel = ">=" -> QLe(b, x)
    [] rel = "<"  -> QLt(x, b)
    [] rel = "<=" -> QLe(x, b)
    [] rel = "!=" -> ~QEq(x, b)

R(c, p, rel, b)  == [kind |-> "param", cls |-> c, par |-> p, rel |-> rel, b |-> b]
In(c, p, S, Bad) == [kind |-> "member", cls |-> c, par |-> p, ok |-> S, bad |-> Bad]
T(c, rel, b, how) == [kind |-> "time", cls |-> c, par |-> "t", rel |-> rel, b |-> b, how |-> how]  \* how: "raise" | "nan" | "loud"

Geo123(c) == In(c, "geometry", {1, 2, 3}, {0, 4, -1})
Geo23(c)  == In(c, "geometry", {2, 3}, {1, 4, 0})
Geo2only(c) == In(c, "geometry", {2}, {1, 4, 0})     \* geometry 3 also needs 3-D detonator data: probed from the 2-D default only

CogAll == {"cog.cog1.Cog1", "cog.cog2.Cog2", "cog.cog3.Cog3", "cog.cog4.Cog4", "cog.cog6.Cog6", "cog.cog7.Cog7",
           "cog.cog8.Cog8", "cog.cog9.Cog9", "cog.cog11.Cog11", "cog.cog13.Cog13", "cog.cog14.Cog14", "cog.cog17.Cog17",
           "cog.cog18.Cog18", "cog.cog19.Cog19", "cog.cog20.Cog20"}
CogT0  == {"cog.cog1.Cog1", "cog.cog2.Cog2", "cog.cog7.Cog7", "cog.cog8.Cog8", "cog.cog9.Cog9", "cog.cog11.Cog11",
           "cog.cog13.Cog13", "cog.cog17.Cog17", "cog.cog21.Cog21"}

Restrictions ==
     {Geo123(c) : c \in CogAll \cup {"noh.noh1.Noh", "noh2.noh2.Noh2", "sedov.sedov.Sedov",
                                      "nohblackboxeos.blackboxnoh.NohBlackBoxEos"}}
\cup {Geo23(c) : c \in {"cog.cog10.Cog10", "cog.cog12.Cog12", "cog.cog16.Cog16", "kenamond.kenamond2.Kenamond2"}}
\cup {Geo2only(c) : c \in {"kenamond.kenamond1.Kenamond1", "kenamond.kenamond3.Kenamond3"}}
\cup {T(c, ">", <<0, 1>>, "nan") : c \in CogT0}               \* "no valid solution at t = 0"
\cup {
  R("noh.noh1.Noh", "u0", "<", <<0, 1>>),                      \* "incident velocity (negative)"
  T("noh2.noh2.Noh2", "<", <<1, 1>>, "raise"),                 \* "the time t must be less than 1"
  T("noh2.noh2_cog.Noh2Cog", "<", <<1, 1>>, "raise"),
  R("cog.cog19.Cog19", "u0", "<", <<0, 1>>),                   \* "u0 strictly negative"
  R("cog.cog13.Cog13", "gamma", "!=", <<1, 1>>),
  R("cog.cog18.Cog18", "alpha", "!=", <<0, 1>>),
  R("cog.cog20.Cog20", "a", "!=", <<0, 1>>),
  R("sedov.sedov.Sedov", "gamma", ">", <<1, 1>>),               \* "gamma must be greater than 1"
  R("sedov.sedov.Sedov", "rho0", ">", <<0, 1>>),                \* "density must be greater than 0"
  R("sedov.sedov.Sedov", "eblast", ">", <<0, 1>>),              \* "eblast must be greater than 0"
  R("sedov.sedov.Sedov", "omega", ">=", <<0, 1>>),
  R("sedov.sedov.Sedov", "omega", "<", <<3, 1>>),               \* omega < geometry (default 3)
  T("sedov.sedov.Sedov", ">", <<0, 1>>, "nan"),
  R("ehep.ehep.EscapeOfHEProducts", "D", ">", <<0, 1>>),
  R("ehep.ehep.EscapeOfHEProducts", "rho_0", ">", <<0, 1>>),
  R("ehep.ehep.EscapeOfHEProducts", "up", ">=", <<0, 1>>),
  R("ehep.ehep.EscapeOfHEProducts", "up", "<", <<17, 80>>),     \* up < D/(gamma+1) = 0.85/4
  R("ehep.ehep.EscapeOfHEProducts", "xtilde", ">", <<0, 1>>),
  R("ehep.ehep.EscapeOfHEProducts", "xtilde", "<=", <<10, 1>>), \* xtilde <= xmax (default 10)
  R("ehep.ehep.EscapeOfHEProducts", "tmax", ">", <<0, 1>>),
  In("ehep.ehep.EscapeOfHEProducts", "geometry", {1}, {2, 3}),
  In("ehep.ehep.EscapeOfHEProducts", "gamma", {3}, {2, 4}),      \* "adiabatic index, must be 3.0"
  R("sdrz.sdrz.SteadyDetonationReactionZone", "D", ">", <<0, 1>>),
  R("sdrz.sdrz.SteadyDetonationReactionZone", "rho_0", ">", <<0, 1>>),
  R("sdrz.sdrz.SteadyDetonationReactionZone", "gamma", ">", <<0, 1>>),
  In("sdrz.sdrz.SteadyDetonationReactionZone", "geometry", {1}, {2, 3}),
  T("mader.timmes.Mader", ">", <<0, 1>>, "nan"),
  T("suolson.suolson.SuOlson", ">", <<0, 1>>, "nan"),
  R("ep_piston.ep_piston.EPpiston", "G", ">", <<0, 1>>),
  R("ep_piston.ep_piston.EPpiston", "Y", ">", <<0, 1>>),
  R("ep_piston.ep_piston.EPpiston", "rho0", ">", <<0, 1>>),
  R("ep_piston.ep_piston.EPpiston", "up", ">=", <<0, 1>>),
  \* "Elastic Wave went beyond xmax ... reduce time or increase xmax": xmax is the largest requested position (0.05 in the probe request);
  \* with the default material the elastic wave reaches it at t = 0.0768 (3/40 is inside, 3/40 + 3/160 outside)
  T("ep_piston.ep_piston.EPpiston", "<=", <<3, 40>>, "raise"),
  R("kenamond.kenamond1.Kenamond1", "D", ">", <<0, 1>>),
  R("kenamond.kenamond2.Kenamond2", "R", ">", <<0, 1>>),
  R("kenamond.kenamond2.Kenamond2", "D1", ">=", <<1, 1>>),      \* documented "D2 < D1"; the repository's own tests use D1 = D2 as a valid problem, so the boundary is admitted
  R("kenamond.kenamond2.Kenamond2", "D2", ">", <<0, 1>>),
  R("kenamond.kenamond2.Kenamond2", "D2", "<=", <<2, 1>>),      \* D2 <= D1 (default D1 = 2), see above
  \* ordering of the detonation times (defaults R=3, D1=2, D2=1, detonators at +-10, +-5, times [2,1,0,1,2]):
  \* t_di >= t_d3 + R (1/D1 + 1/D2) - |a_di| / D2   for i = 1, 2, 4, 5
  R("kenamond.kenamond2.Kenamond2", "t_d[2]", "<=", <<3, 2>>),      \* t_d3 <= min_i (t_di - 9/2 + |a_i|) = 1 - 9/2 + 5
  R("kenamond.kenamond2.Kenamond2", "t_d[1]", ">=", <<-1, 2>>),     \* t_d2 >= 0 + 9/2 - 5
  R("kenamond.kenamond2.Kenamond2", "t_d[4]", ">=", <<-11, 2>>),    \* t_d5 >= 0 + 9/2 - 10
  R("kenamond.kenamond3.Kenamond3", "R", ">", <<0, 1>>),
  R("kenamond.kenamond3.Kenamond3", "R", "<", <<5, 1>>),        \* detonator (0,5) outside the inert region
  R("kenamond.kenamond3.Kenamond3", "D", ">", <<0, 1>>),
  In("dsd.cylexpansion.CylindricalExpansion", "geometry", {2}, {1, 3}),
  R("dsd.cylexpansion.CylindricalExpansion", "r_1", ">", <<1, 5>>),   \* r_1 > alpha_1 / D_CJ_1 = 0.1/0.5 (documented requirement)
  R("dsd.cylexpansion.CylindricalExpansion", "r_1", "<", <<2, 1>>),   \* r_1 < r_2
  R("dsd.cylexpansion.CylindricalExpansion", "r_2", ">", <<1, 1>>),   \* r_2 > r_1
  R("dsd.cylexpansion.CylindricalExpansion", "D_CJ_1", ">", <<0, 1>>),
  R("dsd.cylexpansion.CylindricalExpansion", "D_CJ_2", ">", <<0, 1>>),
  R("dsd.cylexpansion.CylindricalExpansion", "alpha_1", ">=", <<0, 1>>),
  R("dsd.cylexpansion.CylindricalExpansion", "alpha_1", "<", <<1, 2>>),   \* alpha_1 < r_1 D_CJ_1 (the same documented requirement)
  R("dsd.cylexpansion.CylindricalExpansion", "alpha_2", ">=", <<0, 1>>),
  R("dsd.cylexpansion.CylindricalExpansion", "alpha_2", "<", <<2, 1>>),   \* alpha_2 < r_2 D_CJ_2
  In("blake.blake.Blake", "geometry", {3}, {1, 2}),
  R("blake.blake.Blake", "ref_density", ">", <<0, 1>>),
  R("blake.blake.Blake", "cavity_radius", ">", <<0, 1>>),
  R("blake.blake.Blake", "pressure_scale", ">", <<0, 1>>)
}

(* probe values of a restriction: below / at / above the bound, or the members *)
Delta(b) == IF b[1] = 0 THEN <<1, 2>> ELSE <<Abs(b[1]), 4 * b[2]>>        \* a quarter of |b| (1/2 when b = 0)
(* a value violates the catalogue when it violates ANY restriction on the same parameter of the class *)
Violates(r, v) == IF r.kind = "member" THEN v \in r.bad ELSE ~Holds(r.rel, v, r.b)
ViolatedAny(r, v) == \E q \in Restrictions : q.cls = r.cls /\ q.par = r.par /\ q.kind = r.kind /\ Violates(q, v)
Probes(r) ==
  IF r.kind = "member"
  THEN {[r |-> r, v |-> x, violated |-> FALSE] : x \in r.ok} \cup {[r |-> r, v |-> x, violated |-> TRUE] : x \in r.bad}
  ELSE {[r |-> r, v |-> v, violated |-> ViolatedAny(r, v)] :
           v \in {QSub(r.b, Delta(r.b)), r.b, QAdd(r.b, Delta(r.b))}}

VARIABLE probe
Init == \E r \in Restrictions : probe \in Probes(r)
Next == UNCHANGED probe
Spec == Init /\ [][Next]_probe

(* every restriction is probed with at least one violating and one admissible value *)
Covered == \A r \in Restrictions : (\E p \in Probes(r) : p.violated /\ Violates(r, p.v)) /\ (\E p \in Probes(r) : ~p.violated)
ASSUME Covered
Emit == PrintT(ToJson(probe))
===========================================================================
