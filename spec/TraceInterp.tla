--------------------------- MODULE TraceInterp ---------------------------
(* Trace validation of replayed behaviours against Interp (property C06). *)
(* Each event is an operation executed in a real interpreter; Call events *)
(* carry `dev`, the largest relative deviation (units of 1e-9) of any     *)
(* returned value from the oracle (the same operations on that one object *)
(* executed first in a fresh interpreter), and `bdev`, the deviation from *)
(* the value the same point gets in the plain request (batch              *)
(* independence).  The event must be an enabled action of Interp.         *)
EXTENDS Interp, Json, IOUtils

TLog == JsonDeserialize(IOEnv.TRACE_FILE)
VARIABLE l
tvars == <<objs, glob, shtol, dicts, read, hist, l>>
Ev == TLog[l]
IsOp(k) == l <= Len(TLog) /\ Ev.op = k
Report(e, cs) == IF cs = {} THEN TRUE ELSE PrintT(ToJson([tid |-> e.tid, i |-> l, failed |-> cs]))

(* tolerances in units of 1e-9: history never changes a value; a change of batch may  *)
(* move a documented grid-dependent solver within its resolution class                *)
TolHist  == 1
TolBatch(grid) == IF grid THEN 20000000 ELSE 1000        \* 2e-2 (table / cell-average solvers) | 1e-6

TInit == Init /\ l = 1
TConstruct == IsOp("Construct") /\ Construct(Ev.obj, Ev.cls, Ev.cfg, Ev.dict) /\ l' = l + 1
TSetTol    == IsOp("SetTol") /\ SetTol(Ev.obj, Ev.tol) /\ l' = l + 1
TSolve     == IsOp("Solve") /\ Solve(Ev.obj) /\ l' = l + 1
TQuery     == IsOp("Query") /\ Query(Ev.obj, Ev.q) /\ l' = l + 1
TCall ==
  /\ IsOp("Call")
  /\ Report(Ev,  (IF Ev.raised # Ev.oracle_raised THEN {"HIST.raised-differently"} ELSE {})
            \cup (IF ~Ev.raised /\ ~Ev.oracle_raised /\ Ev.dev > TolHist THEN {"HIST.value-depends-on-history"} ELSE {})
            \cup (IF ~Ev.raised /\ Ev.bdev > TolBatch(Ev.grid) THEN {"HIST.value-depends-on-batch"} ELSE {}))
  /\ Call(Ev.obj, Ev.variant, Ev.t)
  /\ l' = l + 1
(* batch independence of one class: a shuffled request against one-point requests *)
TBatch ==
  /\ IsOp("Batch")
  /\ Report(Ev, IF ~Ev.raised /\ Ev.dev > TolBatch(Ev.grid) THEN {"HIST.value-depends-on-batch"} ELSE {})
  /\ l' = l + 1 /\ UNCHANGED <<objs, glob, shtol, dicts, read, hist>>
TReset == IsOp("Reset") /\ objs' = <<>> /\ glob' = [m \in DOMAIN glob |-> None] /\ shtol' = 1
          /\ dicts' = <<>> /\ read' = None /\ hist' = <<>> /\ l' = l + 1
TNext == TConstruct \/ TSetTol \/ TSolve \/ TQuery \/ TCall \/ TBatch \/ TReset
TSpec == TInit /\ [][TNext]_tvars
Accepted == TLCGet("stats").diameter - 1 = Len(TLog)
==========================================================================
