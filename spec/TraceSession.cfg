SPECIFICATION TSpec
CONSTANTS
  Classes = {}
  Objs = {}
  Containers = {}
  Ns = {}
  Orders = {}
  MaxOps = 0
POSTCONDITION Accepted
CHECK_DEADLOCK FALSE
