--------------------------- MODULE Exact_Elastic ---------------------------
(* Tier A exact model of isotropic linear elasticity (property C15, second   *)
(* half).  A material is a pair of exact rationals (lambda, G).  From them    *)
(* the six elastic parameters are rational:                                   *)
(*   E = G (3 lambda + 2 G) / (lambda + G)     nu = lambda / (2 (lambda + G)) *)
(*   K = lambda + 2 G / 3                      M  = lambda + 2 G              *)
(* TLC checks the isotropic identities exactly on every material of the grid  *)
(* (a statement about the documented algebra) and enumerates, for each of the *)
(* 15 ways of specifying a material by two parameters, the pair of values     *)
(* that is handed to the real solver together with the six values it has to   *)
(* end up with (conformance replay).  Materials that are not positive         *)
(* definite must be rejected with ValueError whichever pair describes them.   *)
EXTENDS Numbers, TLC, Json

Names == <<"lame_mod", "shear_mod", "youngs_mod", "poisson_ratio", "bulk_mod", "long_mod">>
Pairs == {<<i, j>> \in (1..6) \X (1..6) : i < j}

Lambdas == {<<25, 1>>, <<1, 1>>, <<0, 1>>, <<-1, 3>>, <<7, 2>>, <<-3, 2>>, <<-5, 1>>}
Shears  == {<<25, 1>>, <<1, 1>>, <<3, 2>>, <<20, 1>>, <<-1, 1>>}
Materials == {<<l, g>> \in Lambdas \X Shears : QSgn(QAdd(l, g)) # 0}      \* lambda + G = 0 has no finite E, nu

Six(m) ==
  LET l == m[1]  g == m[2]  lg == QAdd(l, g) IN
  [lame_mod |-> l, shear_mod |-> g,
   youngs_mod |-> QDiv(QMul(g, QAdd(QMul(<<3, 1>>, l), QMul(<<2, 1>>, g))), lg),
   poisson_ratio |-> QDiv(l, QMul(<<2, 1>>, lg)),
   bulk_mod |-> QAdd(l, QDiv(QMul(<<2, 1>>, g), <<3, 1>>)),
   long_mod |-> QAdd(l, QMul(<<2, 1>>, g))]

(* positive-definite strain energy: G > 0 and K > 0 (equivalently E > 0, -1 < nu < 1/2) *)
PD(m) == LET s == Six(m) IN QSgn(s.shear_mod) > 0 /\ QSgn(s.bulk_mod) > 0

(* the isotropic identities, exact *)
Identities(s) ==
  /\ QEq(s.youngs_mod, QMul(QMul(<<2, 1>>, s.shear_mod), QAdd(<<1, 1>>, s.poisson_ratio)))              \* E = 2 G (1 + nu)
  /\ QEq(s.youngs_mod, QMul(QMul(<<3, 1>>, s.bulk_mod), QSub(<<1, 1>>, QMul(<<2, 1>>, s.poisson_ratio))))  \* E = 3 K (1 - 2 nu)
  /\ QEq(s.long_mod, QAdd(s.bulk_mod, QDiv(QMul(<<4, 1>>, s.shear_mod), <<3, 1>>)))                      \* M = K + 4 G / 3
  /\ QEq(s.lame_mod, QSub(s.bulk_mod, QDiv(QMul(<<2, 1>>, s.shear_mod), <<3, 1>>)))                      \* lambda = K - 2 G / 3
PDEquivalent(m) ==
  LET s == Six(m) IN PD(m) <=> (QSgn(s.youngs_mod) > 0 /\ QLt(<<-1, 1>>, s.poisson_ratio) /\ QLt(s.poisson_ratio, <<1, 2>>))

VARIABLE probe
Init == \E m \in Materials, pr \in Pairs :
          probe = [material |-> m, pd |-> PD(m), first |-> Names[pr[1]], second |-> Names[pr[2]],
                   v1 |-> Six(m)[Names[pr[1]]], v2 |-> Six(m)[Names[pr[2]]], six |-> Six(m),
                   twovalued |-> pr = <<3, 6>>]                  \* (E, M): a quadratic for nu, the solver may pick either root
Next == UNCHANGED probe
Spec == Init /\ [][Next]_probe

AlgebraOK == Identities(probe.six) /\ PDEquivalent(probe.material)
Emit == PrintT(ToJson(probe))
============================================================================
